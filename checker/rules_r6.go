package main

import (
	"fmt"
	"go/ast"
	"go/token"
	"go/types"
	"sort"
	"strings"
)

// Rules added after the statement-deletion sweep (every statement of the
// library deleted in turn; the deletions that still compile, pass the pinned
// suite and raised no alarm were triaged, and the ones that break a property
// led to the clauses below).

// ---------- R-COMMAOK: a comma-ok result is tested before the value is used ----------

// ruleCommaOk: for `v, ok := m[k]` and `v, ok := x.(T)` with both results bound
// (a receive's value is meaningful without ok), no use of v is reachable from the assignment without
// passing a node that reads ok (while neither has been re-assigned). A lookup
// whose miss test was dropped hands the zero value (a nil plugin, a nil
// interface) to code that dereferences it.
func ruleCommaOk(c *Ctx) {
	p := c.P
	n, bad := 0, 0
	for _, f := range p.Funcs {
		if strings.HasSuffix(p.Fset.Position(f.Body.Pos()).Filename, "testing.go") {
			continue
		}
		info := f.Pkg.TypesInfo
		g := p.Graph(f)
		for _, m := range g.Nodes {
			as, ok := m.Ast.(*ast.AssignStmt)
			if !ok || len(as.Lhs) != 2 || len(as.Rhs) != 1 {
				continue
			}
			kind := ""
			switch r := ast.Unparen(as.Rhs[0]).(type) {
			case *ast.IndexExpr:
				if t := info.TypeOf(r.X); t != nil {
					if _, isMap := t.Underlying().(*types.Map); isMap {
						kind = "map lookup"
					}
				}
			case *ast.TypeAssertExpr:
				kind = "type assertion"
			}
			if kind == "" {
				continue
			}
			vv, _ := identObj(info, as.Lhs[0]).(*types.Var)
			kv, _ := identObj(info, as.Lhs[1]).(*types.Var)
			if vv == nil || kv == nil || vv.Name() == "_" || kv.Name() == "_" {
				continue
			}
			n++
			// walk forward. A branch on ok splits the walk: the hit edge ends it, the
			// miss edge is followed (the value must not be used there either); any
			// other read of ok (ok passed on, combined into a larger condition) ends it.
			var use *Node
			type witem struct {
				n      *Node
				vv, kv *types.Var
			}
			type wkey struct {
				n  *Node
				vv *types.Var
			}
			seen := map[wkey]bool{}
			var work []witem
			for _, e := range m.Succs {
				work = append(work, witem{e.To, vv, kv})
			}
			for len(work) > 0 && use == nil {
				it := work[len(work)-1]
				work = work[:len(work)-1]
				x := it.n
				if seen[wkey{x, it.vv}] || x == m {
					continue
				}
				seen[wkey{x, it.vv}] = true
				cv, ck := it.vv, it.kv
				if x.Ast != nil {
					// `v2, ok2 = v, ok`: the pair is handed on together (the shape an
					// inlined lookup helper leaves behind): follow the copies
					if cp, isAs := x.Ast.(*ast.AssignStmt); isAs && len(cp.Lhs) == len(cp.Rhs) && len(cp.Lhs) >= 2 {
						var nv, nk *types.Var
						for i, r := range cp.Rhs {
							if identObj(info, r) == cv {
								nv, _ = identObj(info, cp.Lhs[i]).(*types.Var)
							}
							if identObj(info, r) == ck {
								nk, _ = identObj(info, cp.Lhs[i]).(*types.Var)
							}
						}
						if nv != nil && nk != nil {
							for _, e := range x.Succs {
								work = append(work, witem{e.To, nv, nk})
							}
							continue
						}
					}
					defs, uses := nodeDefsUses(info, x.Ast)
					if uses[cv] {
						use = x
						break
					}
					if _, re := defs[cv]; re {
						continue
					}
					if uses[ck] {
						for _, e := range x.Succs {
							if at, isAt := edgeAtom(info, e); isAt && at.Kind == "bool" && identObj(info, at.X) == ck && !at.True {
								work = append(work, witem{e.To, cv, ck})
							}
						}
						continue
					}
				}
				for _, e := range x.Succs {
					work = append(work, witem{e.To, cv, ck})
				}
			}
			construct := fmt.Sprintf("%s `%s` tested before its value is used", kind, exprStr(as.Rhs[0]))
			if use != nil {
				bad++
				c.R.Violate("R-COMMAOK", p.Pos(as), f.Name, construct,
					"the value of this comma-ok "+kind+" is used at "+p.Pos(use.Ast)+" on a path on which the ok result was never consulted (the miss test was dropped, or ok was overwritten by a later comma-ok first): on a miss the zero value (a nil plugin, a nil interface) is dereferenced or served", nil)
			} else {
				c.R.Hold("R-COMMAOK", p.Pos(as), f.Name, construct, "", false)
			}
		}
	}
	if n < 8 {
		c.R.Undecided("R-COMMAOK", "", "instance-floor", fmt.Sprintf("only %d comma-ok assignments with both results bound found, at least 8 expected", n))
	} else if bad == 0 {
		c.R.Hold("R-COMMAOK", "-", "", "comma-ok results are consulted", fmt.Sprintf("%d comma-ok assignments with both results bound; on every path the ok result is read before the value is used", n), true)
	}
}

// ---------- R-CHAN/closer: every channel that goroutines wait on has somebody who closes or feeds it ----------

// ruleChanClosers: a channel field (or local) that appears as a receive in a
// select arm or as a bare receive is a wake-up condition of some goroutine. At
// least one close of, or send on, that channel must exist in the module;
// otherwise the waiting goroutines can only be ended by another arm, and a
// Close/Stop whose only effect was that close leaves them running.
func ruleChanClosers(c *Ctx) {
	p := c.P
	type winfo struct {
		desc  string
		where string
	}
	waited := map[types.Object]winfo{}
	fed := map[types.Object]bool{}
	parent := map[types.Object]types.Object{}
	var find func(o types.Object) types.Object
	find = func(o types.Object) types.Object {
		if q, ok := parent[o]; ok && q != o {
			r := find(q)
			parent[o] = r
			return r
		}
		return o
	}
	union := func(a, b types.Object) {
		if a == nil || b == nil {
			return
		}
		ra, rb := find(a), find(b)
		if ra != rb {
			parent[ra] = rb
		}
	}
	isChan := func(info *types.Info, e ast.Expr) bool {
		t := info.TypeOf(e)
		if t == nil {
			return false
		}
		_, ok := t.Underlying().(*types.Chan)
		return ok
	}
	chanObj := func(f *Func, e ast.Expr) types.Object {
		info := f.Pkg.TypesInfo
		e = ast.Unparen(e)
		if fv := SelField(info, e); fv != nil {
			if fv.Pkg() == nil || !strings.HasPrefix(fv.Pkg().Path(), modPath) {
				return nil // a field of a library type (time.Ticker.C)
			}
			if o := p.fieldByCanonical(p.FieldName(fv)); o != nil {
				return o
			}
			return fv
		}
		if v, ok := identObj(info, e).(*types.Var); ok {
			return v
		}
		return nil
	}
	for _, f := range p.Funcs {
		if strings.HasSuffix(p.Fset.Position(f.Body.Pos()).Filename, "testing.go") {
			continue
		}
		info := f.Pkg.TypesInfo
		// parameters and results are fed by the caller
		for _, fl := range []*ast.FieldList{f.Type.Params, f.Type.Results} {
			if fl == nil {
				continue
			}
			for _, fd := range fl.List {
				for _, nm := range fd.Names {
					if v, ok := info.Defs[nm].(*types.Var); ok {
						if _, isCh := v.Type().Underlying().(*types.Chan); isCh {
							fed[v] = true
						}
					}
				}
			}
		}
		ast.Inspect(f.Body, func(x ast.Node) bool {
			switch s := x.(type) {
			case *ast.UnaryExpr:
				if s.Op == token.ARROW && isChan(info, s.X) {
					if o := chanObj(f, s.X); o != nil {
						if _, dup := waited[o]; !dup {
							waited[o] = winfo{p.chanDesc(f, s.X), p.Pos(s)}
						}
					}
				}
			case *ast.RangeStmt:
				if isChan(info, s.X) {
					if o := chanObj(f, s.X); o != nil {
						if _, dup := waited[o]; !dup {
							waited[o] = winfo{p.chanDesc(f, s.X), p.Pos(s)}
						}
					}
				}
			case *ast.SendStmt:
				if o := chanObj(f, s.Chan); o != nil {
					fed[o] = true
				}
			case *ast.CallExpr:
				if p.CalleeName(f, s) == "builtin.close" && len(s.Args) == 1 {
					if o := chanObj(f, s.Args[0]); o != nil {
						fed[o] = true
					}
					return true
				}
				// handed to another function (signal.Notify, a callee that sends on it)
				for _, a := range s.Args {
					if isChan(info, a) {
						if o := chanObj(f, a); o != nil {
							fed[o] = true
						}
					}
				}
			case *ast.KeyValueExpr:
				if isChan(info, s.Value) {
					if k, ok := s.Key.(*ast.Ident); ok {
						if fv, isF := info.Uses[k].(*types.Var); isF && fv.IsField() {
							fo := p.fieldByCanonical(p.FieldName(fv))
							if fo == nil {
								fo = fv
							}
							if vo := chanObj(f, s.Value); vo != nil {
								union(fo, vo)
							}
						}
					}
				}
			case *ast.ReturnStmt:
				for _, r := range s.Results {
					if isChan(info, r) {
						if o := chanObj(f, r); o != nil {
							fed[o] = true
						}
					}
				}
			case *ast.AssignStmt:
				if len(s.Lhs) != len(s.Rhs) {
					// tuple from a call: channels obtained from elsewhere
					for _, l := range s.Lhs {
						if isChan(info, l) {
							if o := chanObj(f, l); o != nil {
								fed[o] = true
							}
						}
					}
					return true
				}
				for i, r := range s.Rhs {
					if !isChan(info, r) {
						continue
					}
					lo := chanObj(f, s.Lhs[i])
					if call, isCall := ast.Unparen(r).(*ast.CallExpr); isCall {
						if p.CalleeName(f, call) != "builtin.make" && lo != nil {
							fed[lo] = true // time.After(...), ctx.Done(): fed by the library
						}
						continue
					}
					if ro := chanObj(f, r); ro != nil && lo != nil {
						union(lo, ro)
					} else if lo != nil {
						fed[lo] = true // x.C, a library field
					} else if ro != nil {
						fed[ro] = true // stored into a map or slice element: handed on
					}
				}
			case *ast.ValueSpec:
				for i, r := range s.Values {
					if i < len(s.Names) && isChan(info, r) {
						lo := info.Defs[s.Names[i]]
						if call, isCall := ast.Unparen(r).(*ast.CallExpr); isCall {
							if p.CalleeName(f, call) != "builtin.make" && lo != nil {
								fed[lo] = true
							}
						} else if ro := chanObj(f, r); ro != nil && lo != nil {
							union(lo, ro)
						}
					}
				}
			}
			return true
		})
	}
	classFed := map[types.Object]bool{}
	for o, ok := range fed {
		if ok {
			classFed[find(o)] = true
		}
	}
	type row struct {
		o types.Object
		i winfo
	}
	var rows []row
	for o, i := range waited {
		rows = append(rows, row{o, i})
	}
	sort.Slice(rows, func(a, b int) bool { return rows[a].i.where < rows[b].i.where })
	n := 0
	for _, r := range rows {
		n++
		construct := "waited-on channel " + r.i.desc + " has a closer or sender"
		if classFed[find(r.o)] {
			c.R.Hold("R-CHAN/closer", r.i.where, "", construct, "", false)
		} else {
			c.R.Violate("R-CHAN/closer", r.i.where, "", construct,
				"goroutines wait on this channel (first wait at "+r.i.where+") but nothing in the module closes it, sends on it or hands it to anybody who could: a Close/Stop that was meant to end those goroutines has no effect on them, so they (and what they hold: listeners, servers, streams) outlive the client", nil)
		}
	}
	if n < 15 {
		c.R.Undecided("R-CHAN/closer", "", "instance-floor", fmt.Sprintf("only %d waited-on channels found, at least 15 expected", n))
	} else {
		c.R.Hold("R-CHAN/closer", "-", "", "every waited-on channel is fed", fmt.Sprintf("%d channels (fields and locals) that appear in a receive; each has a close, a send or is handed on", n), true)
	}
}

// fieldByCanonical returns one representative field object for a canonical
// "Type.field" name (so that a field and its renamed/regrouped twin compare equal).
func (p *Prog) fieldByCanonical(name string) types.Object {
	if p.canonField == nil {
		p.canonField = map[string]types.Object{}
	}
	if o, ok := p.canonField[name]; ok {
		return o
	}
	var found types.Object
	for _, sp := range scopePkgs {
		pk := p.Pkgs[sp]
		if pk == nil {
			continue
		}
		sc := pk.Types.Scope()
		for _, nm := range sc.Names() {
			tn, ok := sc.Lookup(nm).(*types.TypeName)
			if !ok {
				continue
			}
			st, ok := tn.Type().Underlying().(*types.Struct)
			if !ok {
				continue
			}
			for i := 0; i < st.NumFields(); i++ {
				if p.FieldName(st.Field(i)) == name && found == nil {
					found = st.Field(i)
				}
			}
		}
	}
	p.canonField[name] = found
	return found
}

// ---------- R-RES/served: a brokered listener is closed when AcceptAndServe returns ----------

func ruleAcceptAndServeCloses(c *Ctx) {
	p := c.P
	f := p.Fn("GRPCBroker.AcceptAndServe")
	if f == nil {
		c.R.Undecided("R-RES/served", "GRPCBroker.AcceptAndServe", "anchor", "function not found")
		return
	}
	info := f.Pkg.TypesInfo
	g := p.Graph(f)
	var lnVar *types.Var
	var accN *Node
	for _, m := range g.Nodes {
		as, ok := m.Ast.(*ast.AssignStmt)
		if !ok || len(as.Rhs) != 1 || len(as.Lhs) != 2 {
			continue
		}
		if call, ok := ast.Unparen(as.Rhs[0]).(*ast.CallExpr); ok && p.CalleeName(f, call) == modPath+".GRPCBroker.Accept" {
			lnVar, _ = identObj(info, as.Lhs[0]).(*types.Var)
			accN = m
		}
	}
	if lnVar == nil {
		c.R.Undecided("R-RES/served", f.Name, "anchor", "the call of Accept was not found")
		return
	}
	closes := func(m *Node) bool {
		if m.Ast == nil {
			return false
		}
		found := false
		ast.Inspect(m.Ast, func(x ast.Node) bool {
			if call, ok := x.(*ast.CallExpr); ok {
				if se, ok := ast.Unparen(call.Fun).(*ast.SelectorExpr); ok && se.Sel.Name == "Close" && identObj(info, se.X) == lnVar {
					found = true
				}
			}
			return true
		})
		return found
	}
	// success edge of Accept: err == nil
	var errV *types.Var
	if as, ok := accN.Ast.(*ast.AssignStmt); ok {
		errV, _ = identObj(info, as.Lhs[1]).(*types.Var)
	}
	bad := false
	for _, m := range g.Nodes {
		for _, e := range m.Succs {
			at, isAt := edgeAtom(info, e)
			if !isAt || at.Kind != "nil" || at.Op != token.EQL || identObj(info, at.X) != errV {
				continue
			}
			seen := g.Reach([]*Node{e.To}, closes, nil)
			if _, out := seen[g.Exit]; out {
				bad = true
			}
		}
	}
	construct := "the brokered listener is closed when serving ends"
	if bad {
		c.R.Violate("R-RES/served", p.Pos(accN.Ast), f.Name, construct,
			"after a successful Accept the function can return without closing the listener (no deferred or explicit Close of it on that path): when the served connection ends, the listener and its Unix socket file stay behind until the whole broker is closed, and on the host side for good", nil)
	} else {
		c.R.Hold("R-RES/served", p.Pos(accN.Ast), f.Name, construct, "every path from the successful Accept to a return passes a (deferred) Close of the listener", true)
	}
}

// ---------- R-RES/muxhook: closing a multiplexed brokered listener ends its knock listener ----------

func ruleMuxListenerHook(c *Ctx) {
	p := c.P
	f := p.Fn("GRPCBroker.Accept")
	if f == nil {
		c.R.Undecided("R-RES/muxhook", "GRPCBroker.Accept", "anchor", "function not found")
		return
	}
	info := f.Pkg.TypesInfo
	// the channel handed to muxer.Listener(id, X)
	var doneAP string
	var lcall *ast.CallExpr
	for _, call := range f.Calls() {
		if strings.HasSuffix(p.CalleeName(f, call), "grpcmux.GRPCMuxer.Listener") && len(call.Args) == 2 {
			doneAP = accessPath(info, call.Args[1])
			lcall = call
		}
	}
	if lcall == nil || doneAP == "" {
		c.R.Undecided("R-RES/muxhook", f.Name, "anchor", "the muxer.Listener(id, doneCh) call was not found")
		return
	}
	// some function literal inside Accept (the close hook) closes that channel
	closed := false
	for _, lf := range p.Funcs {
		root := lf
		for root.Parent != nil {
			root = root.Parent
		}
		if root != f || lf == f {
			continue
		}
		li := lf.Pkg.TypesInfo
		for _, call := range lf.Calls() {
			if p.CalleeName(lf, call) == "builtin.close" && len(call.Args) == 1 && accessPath(li, call.Args[0]) == doneAP {
				closed = true
			}
		}
	}
	construct := "the listener's close hook closes the channel its knock listener waits on"
	if closed {
		c.R.Hold("R-RES/muxhook", p.Pos(lcall), f.Name, construct, "a closure of Accept closes the channel that was handed to muxer.Listener", true)
	} else {
		c.R.Violate("R-RES/muxhook", p.Pos(lcall), f.Name, construct,
			"the channel handed to muxer.Listener as the listener's done signal is closed by no closure of Accept: closing the brokered listener ends neither its blocked Accept nor the listenForKnocks goroutine, which stay behind after the client is closed", nil)
	}
}

// ---------- R-ROUTE/errstop: a failed read of the announced id does not reach the hand-off ----------

func ruleRunErrStops(c *Ctx) {
	p := c.P
	f := p.Fn("MuxBroker.Run")
	if f == nil {
		c.R.Undecided("R-ROUTE/errstop", "MuxBroker.Run", "anchor", "function not found")
		return
	}
	info := f.Pkg.TypesInfo
	g := p.Graph(f)
	hand := map[*Node]bool{}
	walkNoLit(f.Body, func(n ast.Node) bool {
		if ss, ok := n.(*ast.SendStmt); ok && isPendingChSend(p, info, ss) {
			if m := g.NodeOf(ss); m != nil {
				hand[m] = true
			}
		}
		return true
	})
	var getNodes []*Node
	for _, cs := range p.Calls().sites[f] {
		if len(cs.Callees) == 1 && cs.Callees[0].Name == "MuxBroker.getStream" {
			getNodes = append(getNodes, cs.Node)
		}
	}
	// error variables defined by binary.Read
	n, bad := 0, false
	for _, m := range g.Nodes {
		if m.Ast == nil {
			continue
		}
		isRead := false
		for _, call := range callsIn(m.Ast) {
			if p.CalleeName(f, call) == "encoding/binary.Read" {
				isRead = true
			}
		}
		if !isRead {
			continue
		}
		defs, _ := nodeDefsUses(info, m.Ast)
		for v := range defs {
			if !isErrorType(v.Type()) {
				continue
			}
			for _, x := range g.Nodes {
				for _, e := range x.Succs {
					at, isAt := edgeAtom(info, e)
					if !isAt || at.Kind != "nil" || at.Op != token.NEQ || identObj(info, at.X) != v {
						continue
					}
					n++
					// stop at the next accept (next iteration)
					seen := g.Reach([]*Node{e.To}, func(y *Node) bool { return y == m }, nil)
					for y := range seen {
						if hand[y] {
							bad = true
						}
						for _, gn := range getNodes {
							if y == gn {
								bad = true
							}
						}
					}
				}
			}
		}
	}
	construct := "a stream whose id could not be read is not parked"
	switch {
	case n == 0:
		c.R.Undecided("R-ROUTE/errstop", f.Name, construct, "no error edge of the id read found")
	case bad:
		c.R.Violate("R-ROUTE/errstop", p.Pos(f.Node()), f.Name, construct,
			"after the read of the announced id failed the loop goes on to look up and park the (already closed) stream under whatever the id variable holds (0): a later Accept(0) or a dial that legitimately uses that id receives a dead connection", nil)
	default:
		c.R.Hold("R-ROUTE/errstop", p.Pos(f.Node()), f.Name, construct, "from the error edge of the id read neither the slot lookup nor the hand-off is reachable within the iteration", true)
	}
}

// ---------- R-DRAIN/chan: the plugin-side stdio copy loop ends on a read error ----------

func ruleCopyChanExits(c *Ctx) {
	p := c.P
	f := p.Fn("copyChan")
	if f == nil {
		c.R.Undecided("R-DRAIN/chan", "copyChan", "anchor", "function not found")
		return
	}
	info := f.Pkg.TypesInfo
	g := p.Graph(f)
	var rn *Node
	var errv *types.Var
	for _, m := range g.Nodes {
		as, ok := m.Ast.(*ast.AssignStmt)
		if !ok || len(as.Rhs) != 1 {
			continue
		}
		if call, ok := ast.Unparen(as.Rhs[0]).(*ast.CallExpr); ok {
			if nm := p.CalleeName(f, call); strings.HasSuffix(nm, ".Read") && (strings.HasPrefix(nm, "bufio.") || strings.HasPrefix(nm, "io.")) {
				rn = m
				for _, l := range as.Lhs {
					if v, ok := identObj(info, l).(*types.Var); ok && isErrorType(v.Type()) {
						errv = v
					}
				}
			}
		}
	}
	if rn == nil || errv == nil {
		c.R.Undecided("R-DRAIN/chan", f.Name, "read loop", "no Read call with a bound error found")
		return
	}
	// from the read, on paths where err is known non-nil (err == io.EOF, err != nil),
	// the read must not be reached again
	spins := false
	nEdges := 0
	for _, x := range g.Nodes {
		for _, e := range x.Succs {
			at, isAt := edgeAtom(info, e)
			if !isAt || identObj(info, at.X) != errv {
				continue
			}
			nonNil := (at.Kind == "nil" && at.Op == token.NEQ) || (at.Kind == "cmp" && at.Op == token.EQL && !isNilIdent(info, at.Y))
			if !nonNil {
				continue
			}
			nEdges++
			if _, back := g.Reach([]*Node{e.To}, nil, nil)[rn]; back {
				spins = true
			}
		}
	}
	// and the loop goes round again only when the error is known to be nil: a
	// path from the read back to the read that takes no `err == nil` edge can
	// carry a failed read into the next iteration
	establishesNil := func(e *Edge) bool {
		at, ok := edgeAtom(info, e)
		return ok && at.Kind == "nil" && at.Op == token.EQL && identObj(info, at.X) == errv
	}
	blind := g.ReachAfter(rn, nil, establishesNil)
	if _, again := blind[rn]; again {
		spins = true
	}
	construct := "the stdio copy loop ends when its source ends or fails"
	if spins || nEdges == 0 {
		c.R.Violate("R-DRAIN/chan", p.Pos(rn.Ast), f.Name, construct,
			"after the read returned an error (EOF or a failure) the loop can read again: the copy goroutine spins on the dead source forever, and (for a zero-byte read) keeps the stdio stream busy", nil)
	} else {
		c.R.Hold("R-DRAIN/chan", p.Pos(rn.Ast), f.Name, construct, "every edge on which the read error is non-nil leaves the loop, and no path back to the read avoids testing it", true)
	}
}

// ---------- R-MANAGED: managed clients are registered and CleanupClients kills every one of them ----------

func ruleManaged(c *Ctx) {
	p := c.P
	pk := p.Pkgs[modPath]
	mc, _ := pk.Types.Scope().Lookup("managedClients").(*types.Var)
	nc, cu := p.Fn("NewClient"), p.Fn("CleanupClients")
	if mc == nil || nc == nil || cu == nil {
		c.R.Undecided("R-MANAGED", "CleanupClients", "anchor", "managedClients, NewClient or CleanupClients not found")
		return
	}
	// (1) registration on the Managed edge
	{
		info := nc.Pkg.TypesInfo
		g := p.Graph(nc)
		managedF := p.FieldObj(modPath, "ClientConfig", "Managed")
		var reg *Node
		for _, m := range g.Nodes {
			as, ok := m.Ast.(*ast.AssignStmt)
			if !ok || len(as.Lhs) != 1 || len(as.Rhs) != 1 || identObj(info, as.Lhs[0]) != mc {
				continue
			}
			if call, ok := ast.Unparen(as.Rhs[0]).(*ast.CallExpr); ok && p.CalleeName(nc, call) == "builtin.append" && len(call.Args) == 2 && identObj(info, call.Args[0]) == mc {
				reg = m
			}
		}
		construct := "a managed client is registered"
		switch {
		case reg == nil:
			c.R.Violate("R-MANAGED", p.Pos(nc.Node()), nc.Name, construct, "NewClient no longer appends a client created with Managed: true to the managed list: CleanupClients does not know it and leaves its plugin process running when the host exits", nil)
		case !g.OnlyViaEdge(reg, func(e *Edge) bool {
			at, ok := edgeAtom(info, e)
			return ok && at.Kind == "bool" && at.True && SelField(info, at.X) == managedF
		}):
			c.R.Violate("R-MANAGED", p.Pos(reg.Ast), nc.Name, construct, "the registration is not conditional on exactly ClientConfig.Managed", nil)
		default:
			c.R.Hold("R-MANAGED", p.Pos(reg.Ast), nc.Name, construct, "appended to managedClients on the Managed edge", true)
		}
	}
	// (2) CleanupClients: every element is killed, and the kills are waited for
	{
		info := cu.Pkg.TypesInfo
		var loop *ast.RangeStmt
		// the list itself, or a local snapshot of it taken in this function
		// (append([]*Client(nil), managedClients...), slices.Clone(managedClients))
		isList := func(e ast.Expr) bool {
			if identObj(info, e) == mc {
				return true
			}
			v, ok := identObj(info, e).(*types.Var)
			if !ok || v.IsField() {
				return false
			}
			d := p.singleDef(cu, v)
			call, ok := ast.Unparen(d).(*ast.CallExpr)
			if d == nil || !ok {
				return false
			}
			switch p.CalleeName(cu, call) {
			case "slices.Clone":
				return len(call.Args) == 1 && identObj(info, call.Args[0]) == mc
			case "builtin.append":
				return len(call.Args) == 2 && call.Ellipsis.IsValid() && identObj(info, call.Args[1]) == mc
			}
			return false
		}
		ast.Inspect(cu.Body, func(x ast.Node) bool {
			if rs, ok := x.(*ast.RangeStmt); ok && isList(rs.X) {
				loop = rs
			}
			return true
		})
		construct := "CleanupClients kills every managed client and waits"
		if loop == nil {
			c.R.Violate("R-MANAGED", p.Pos(cu.Node()), cu.Name, construct, "CleanupClients no longer ranges over the managed clients", nil)
			return
		}
		kills, adds, dones, viaGo := 0, 0, 0, false
		ast.Inspect(loop.Body, func(x ast.Node) bool {
			switch s := x.(type) {
			case *ast.GoStmt:
				viaGo = true
			case *ast.CallExpr:
				switch p.CalleeName(cu, s) {
				case modPath + ".Client.Kill":
					kills++
				case "sync.WaitGroup.Add":
					adds++
				case "sync.WaitGroup.Done":
					dones++
				}
				// calls inside literals are resolved in the literal's Func
				if se, ok := ast.Unparen(s.Fun).(*ast.SelectorExpr); ok {
					switch se.Sel.Name {
					case "Kill":
						if t := info.TypeOf(se.X); t != nil && strings.HasSuffix(t.String(), "go-plugin.Client") {
							kills++
						}
					}
				}
			}
			return true
		})
		waits := false
		ast.Inspect(cu.Body, func(x ast.Node) bool {
			if call, ok := x.(*ast.CallExpr); ok && p.CalleeName(cu, call) == "sync.WaitGroup.Wait" && call.Pos() > loop.End() {
				waits = true
			}
			return true
		})
		switch {
		case kills == 0:
			c.R.Violate("R-MANAGED", p.Pos(loop), cu.Name, construct, "the loop over the managed clients does not call Kill on them: their plugin processes survive the host", nil)
		case viaGo && (adds == 0 || dones == 0 || !waits):
			c.R.Violate("R-MANAGED", p.Pos(loop), cu.Name, construct, fmt.Sprintf("the kills run in goroutines but are not accounted for with a WaitGroup (Add=%d Done=%d Wait after the loop=%v): CleanupClients returns (or panics on a negative counter) before the plugins are dead", adds, dones, waits), nil)
		default:
			c.R.Hold("R-MANAGED", p.Pos(loop), cu.Name, construct, "each element is killed; Add before the goroutine, Done after Kill, Wait after the loop", true)
		}
	}
}

// ---------- R-CLOSE/broker: GRPCBroker.Close ends the broker stream ----------

func ruleGRPCBrokerClose(c *Ctx) {
	p := c.P
	f := p.Fn("GRPCBroker.Close")
	if f == nil {
		c.R.Undecided("R-RES/broker", "GRPCBroker.Close", "anchor", "function not found")
		return
	}
	g := p.Graph(f)
	isStreamClose := func(m *Node) bool {
		if m.Ast == nil {
			return false
		}
		for _, call := range callsIn(m.Ast) {
			if p.CalleeName(f, call) == modPath+".streamer.Close" {
				return true
			}
		}
		return false
	}
	seen := g.Reach([]*Node{g.Entry}, isStreamClose, nil)
	if _, miss := seen[g.Exit]; miss {
		c.R.Violate("R-RES/broker", p.Pos(f.Node()), f.Name, "Close closes the broker stream", "GRPCBroker.Close can return without closing the streamer: the stream pump goroutines and GRPCBroker.Run stay alive after the client was closed, and a later Accept blocks in Send instead of failing with \"broker closed\"", nil)
	} else {
		c.R.Hold("R-RES/broker", p.Pos(f.Node()), f.Name, "Close closes the broker stream", "streamer.Close() on every path", true)
	}
}

// ---------- R-WIRE/fields: what one side writes into a broker/stdio message the other side reads ----------

// ruleWireFields: for the protobuf messages the two go-plugin ends exchange
// directly (ConnInfo, ConnInfo_Knock, StdioData), every field that the module
// sets in a message literal (or assigns) is read somewhere in the module, and
// every field it reads is set somewhere. A field that is written but never
// looked at is how an error reported by the peer (Knock.Error), a stream tag
// or an id gets ignored.
func ruleWireFields(c *Ctx) {
	p := c.P
	msgs := map[string]bool{"ConnInfo": true, "ConnInfo_Knock": true, "StdioData": true}
	isMsgField := func(fv *types.Var) (string, bool) {
		if fv == nil || !fv.IsField() || !fv.Exported() || fv.Pkg() == nil || !strings.HasSuffix(fv.Pkg().Path(), "/internal/plugin") {
			return "", false
		}
		return fv.Name(), true
	}
	owner := func(info *types.Info, e ast.Expr) string {
		t := info.TypeOf(e)
		if t == nil {
			return ""
		}
		s := derefType(t).String()
		if i := strings.LastIndex(s, "."); i >= 0 {
			s = s[i+1:]
		}
		return s
	}
	written, read := map[string]string{}, map[string]string{}
	for _, f := range p.Funcs {
		if strings.HasSuffix(p.Fset.Position(f.Body.Pos()).Filename, "testing.go") || strings.HasSuffix(f.Pkg.PkgPath, "/internal/plugin") {
			continue
		}
		info := f.Pkg.TypesInfo
		lhs := map[ast.Expr]bool{}
		ast.Inspect(f.Body, func(x ast.Node) bool {
			if as, ok := x.(*ast.AssignStmt); ok {
				for _, l := range as.Lhs {
					lhs[ast.Unparen(l)] = true
				}
			}
			return true
		})
		ast.Inspect(f.Body, func(x ast.Node) bool {
			switch s := x.(type) {
			case *ast.CompositeLit:
				o := owner(info, s)
				if !msgs[o] {
					return true
				}
				for _, el := range s.Elts {
					if kv, ok := el.(*ast.KeyValueExpr); ok {
						if k, ok := kv.Key.(*ast.Ident); ok {
							if fv, _ := info.Uses[k].(*types.Var); fv != nil {
								if n, ok := isMsgField(fv); ok {
									written[o+"."+n] = p.Pos(kv)
								}
							}
						}
					}
				}
			case *ast.CallExpr:
				// a generated nil-safe getter X.GetF() is a read of the field F
				if se, isSel := s.Fun.(*ast.SelectorExpr); isSel && len(s.Args) == 0 && strings.HasPrefix(se.Sel.Name, "Get") {
					if sel := info.Selections[se]; sel != nil && sel.Kind() == types.MethodVal {
						o := owner(info, se.X)
						if mf, isF := sel.Obj().(*types.Func); isF && mf.Pkg() != nil && strings.HasSuffix(mf.Pkg().Path(), "/internal/plugin") && msgs[o] {
							if st, isSt := derefType(info.TypeOf(se.X)).Underlying().(*types.Struct); isSt {
								for i := 0; i < st.NumFields(); i++ {
									if st.Field(i).Name() == strings.TrimPrefix(se.Sel.Name, "Get") {
										if n, ok := isMsgField(st.Field(i)); ok {
											read[o+"."+n] = p.Pos(s)
										}
									}
								}
							}
						}
					}
				}
			case *ast.SelectorExpr:
				fv := SelField(info, s)
				n, ok := isMsgField(fv)
				if !ok {
					return true
				}
				o := owner(info, s.X)
				if !msgs[o] {
					return true
				}
				if lhs[s] {
					written[o+"."+n] = p.Pos(s)
				} else {
					read[o+"."+n] = p.Pos(s)
				}
			}
			return true
		})
	}
	var keys []string
	seenK := map[string]bool{}
	for k := range written {
		if !seenK[k] {
			seenK[k] = true
			keys = append(keys, k)
		}
	}
	for k := range read {
		if !seenK[k] {
			seenK[k] = true
			keys = append(keys, k)
		}
	}
	sort.Strings(keys)
	for _, k := range keys {
		construct := "message field " + k + " is both set and read"
		w, r := written[k], read[k]
		switch {
		case w != "" && r != "":
			c.R.Hold("R-WIRE/fields", w, "", construct, "set at "+w+", read at "+r, true)
		case w != "":
			c.R.Violate("R-WIRE/fields", w, "", construct, "the module sets "+k+" (at "+w+") but no code reads it any more: what the peer reports in this field (an error text, a stream tag, an id) is ignored by the receiving side", nil)
		default:
			c.R.Violate("R-WIRE/fields", r, "", construct, "the module reads "+k+" (at "+r+") but never sets it: the receiving side always sees the zero value", nil)
		}
	}
	if len(keys) < 8 {
		c.R.Undecided("R-WIRE/fields", "", "instance-floor", fmt.Sprintf("only %d exchanged message fields found, 8 expected (ConnInfo: ServiceId, Network, Address, Knock; Knock: Knock, Ack, Error; StdioData: Channel, Data)", len(keys)))
	}
}

// ---------- R-RUN/broker: every broker that is created is run ----------

func ruleBrokerRuns(c *Ctx) {
	p := c.P
	n := 0
	for _, f := range p.Funcs {
		if f.Lit != nil || strings.HasSuffix(p.Fset.Position(f.Body.Pos()).Filename, "testing.go") {
			continue
		}
		info := f.Pkg.TypesInfo
		for _, call := range f.Calls() {
			nm := p.CalleeName(f, call)
			if nm != modPath+".newMuxBroker" && nm != modPath+".newGRPCBroker" {
				continue
			}
			as, ok := p.Parent(call).(*ast.AssignStmt)
			if !ok || len(as.Lhs) != 1 {
				continue
			}
			n++
			target := accessPath(info, as.Lhs[0])
			runs := false
			// only code the creating function itself executes counts: a go statement
			// inside a function literal that is merely stored (a start hook run "on
			// first use") does not start the broker here
			var walk func(x ast.Node, live bool)
			walk = func(x ast.Node, live bool) {
				ast.Inspect(x, func(y ast.Node) bool {
					switch z := y.(type) {
					case *ast.FuncLit:
						// executed here only when called, deferred or go'd on the spot
						exec := false
						switch par := p.Parent(z).(type) {
						case *ast.CallExpr:
							if ast.Unparen(par.Fun) == ast.Expr(z) {
								exec = true
							}
						}
						if exec {
							walk(z.Body, live)
						}
						return false
					case *ast.GoStmt:
						if se, ok := ast.Unparen(z.Call.Fun).(*ast.SelectorExpr); ok && live && se.Sel.Name == "Run" && accessPath(info, se.X) == target && target != "" {
							runs = true
						}
					}
					return true
				})
			}
			walk(f.Body, true)
			construct := "the broker created here is run"
			if runs {
				c.R.Hold("R-RUN/broker", p.Pos(call), f.Name, construct, "go "+exprStr(as.Lhs[0])+".Run() in the same function", true)
			} else {
				c.R.Violate("R-RUN/broker", p.Pos(call), f.Name, construct,
					"a broker is created but its Run loop is never started in this function: nothing receives the peer's streams/messages, so every Accept on this side times out and every Dial of the peer waits for an ack that never comes", nil)
			}
		}
	}
	if n < 4 {
		c.R.Undecided("R-RUN/broker", "", "instance-floor", fmt.Sprintf("only %d broker construction sites found, 4 expected (both protocols, both sides)", n))
	}
}

// ---------- R-ADDR/dial: the brokered dial resolves an address on every path to the dial ----------

func ruleDialAddrResolved(c *Ctx) {
	p := c.P
	f := p.Fn("GRPCBroker.DialWithOptions")
	if f == nil {
		c.R.Undecided("R-ADDR", "GRPCBroker.DialWithOptions", "anchor", "function not found")
		return
	}
	info := f.Pkg.TypesInfo
	g := p.Graph(f)
	var useN *Node
	var addrV *types.Var
	for _, call := range f.Calls() {
		if p.CalleeName(f, call) == modPath+".netAddrDialer" && len(call.Args) == 1 {
			addrV, _ = identObj(info, call.Args[0]).(*types.Var)
			useN = g.NodeOf(call)
		}
	}
	if useN == nil || addrV == nil {
		c.R.Undecided("R-ADDR", f.Name, "anchor", "netAddrDialer(addr) not found")
		return
	}
	defines := func(m *Node) bool {
		if m.Ast == nil {
			return false
		}
		defs, _ := nodeDefsUses(info, m.Ast)
		rhs, ok := defs[addrV]
		if !ok {
			return false
		}
		if isVarDeclNode(m.Ast) && rhs == nil {
			return false
		}
		return rhs == nil || !isNilIdent(info, rhs)
	}
	seen := p.FeasibleReach(f, []*Node{g.Entry}, defines, nil)
	if seen[useN] {
		c.R.Violate("R-ADDR", p.Pos(useN.Ast), f.Name, "the brokered dial uses a resolved address",
			"a feasible path reaches the dial with the address variable never assigned (a network case lost its resolve call, or the unknown-network case no longer fails): the dialer dereferences a nil net.Addr when the connection is first used", nil)
	} else {
		c.R.Hold("R-ADDR", p.Pos(useN.Ast), f.Name, "the brokered dial uses a resolved address", "no feasible path reaches netAddrDialer(addr) without an assignment to addr", true)
	}
}

// ---------- polarity clauses (operator sweep): the guarded action sits on the right edge ----------

// rulePolarity collects small "the action is reached on the intended edge of
// its guard" checks. A flipped comparison leaves every structure the other
// rules look at in place; what changes is the edge.
func rulePolarity(c *Ctx, which string) {
	p := c.P
	switch which {
	case "socketdir":
		// Kill: RemoveAll(dir) is not behind `dir == ""`
		f := p.Fn("Client.Kill")
		if f == nil {
			return
		}
		for _, lf := range p.Funcs {
			root := lf
			for root.Parent != nil {
				root = root.Parent
			}
			if root != f {
				continue
			}
			info := lf.Pkg.TypesInfo
			g := p.Graph(lf)
			for _, call := range lf.Calls() {
				if p.CalleeName(lf, call) != "os.RemoveAll" || len(call.Args) != 1 {
					continue
				}
				dv := identObj(info, call.Args[0])
				node := g.NodeOf(call)
				if dv == nil || node == nil {
					continue
				}
				wrong := g.OnlyViaEdge(node, func(e *Edge) bool {
					at, ok := edgeAtom(info, e)
					if !ok || at.Kind != "cmp" || at.Op != token.EQL || identObj(info, at.X) != dv {
						return false
					}
					s, isS := constString(info, at.Y)
					return isS && s == ""
				})
				construct := "socket directory removed when one was created"
				if wrong {
					c.R.Violate("R-RES/socketdir", p.Pos(call), lf.Name, construct, "os.RemoveAll is reachable only when the recorded socket directory is the empty string: the directory created for a custom runner is never removed", nil)
				} else {
					c.R.Hold("R-RES/socketdir", p.Pos(call), lf.Name, construct, "the removal is not confined to the empty-name edge", true)
				}
			}
		}
	case "hostenv":
		// hostEnv: on the true edge of each NAME= prefix test the entry is not appended
		f := p.Fn("hostEnv")
		if f == nil {
			return
		}
		info := f.Pkg.TypesInfo
		g := p.Graph(f)
		var appendN []*Node
		for _, m := range g.Nodes {
			if m.Ast == nil {
				continue
			}
			for _, call := range callsIn(m.Ast) {
				if p.CalleeName(f, call) == "builtin.append" {
					appendN = append(appendN, m)
				}
			}
		}
		n, leak := 0, ""
		for _, m := range g.Nodes {
			for _, e := range m.Succs {
				at, ok := edgeAtom(info, e)
				if !ok || at.Kind != "call" || !at.True {
					continue
				}
				call, isC := at.X.(*ast.CallExpr)
				if !isC || p.CalleeName(f, call) != "strings.HasPrefix" || len(call.Args) != 2 {
					continue
				}
				pre, isK := constString(info, call.Args[1])
				if !isK {
					continue
				}
				n++
				// the next evaluation of this very test marks the next iteration
				mm := m
				seen := p.FeasibleReach(f, []*Node{e.To}, func(x *Node) bool { return x == mm }, nil)
				for _, an := range appendN {
					if seen[an] {
						leak = strings.TrimSuffix(pre, "=")
					}
				}
			}
		}
		construct := "a matching entry is dropped, not kept"
		switch {
		case n == 0:
			c.R.Hold("R-TABLE/env", p.Pos(f.Node()), f.Name, construct, "the filter is not written with constant prefixes on edges (checked by the table clause)", false)
		case leak != "":
			c.R.Violate("R-TABLE/env", p.Pos(f.Node()), f.Name, construct, "on the edge on which an inherited entry was recognised as "+leak+"=... the entry can still be appended to the environment handed to the plugin (the tests are combined with && instead of ||, or the skip was lost): the host's own value reaches the plugin", nil)
		default:
			c.R.Hold("R-TABLE/env", p.Pos(f.Node()), f.Name, construct, "from the true edge of each prefix test the append is unreachable within the iteration", true)
		}
		// the dual: an entry reaches the plugin only after it was found not to be
		// a reserved name (see hostEnvOnlyTested)
		for _, want := range []string{"PLUGIN_CLIENT_CERT", "PLUGIN_MULTIPLEX_GRPC"} {
			construct2 := "only entries tested not to be " + want + " are inherited"
			if ok, hit := p.hostEnvOnlyTested(want); !ok && hit != nil {
				c.R.Violate("R-TABLE/env", p.Pos(hit.Ast), f.Name, construct2, "an inherited entry can be appended to the plugin's environment on a path on which it was never compared with "+want+" (another condition is consulted instead of the built-in exclusion): a host that carries the variable hands it to its plugins, which then negotiate a feature this client did not ask for", nil)
			} else if ok {
				c.R.Hold("R-TABLE/env", p.Pos(f.Node()), f.Name, construct2, "every path to an append crosses the failed test for this name", true)
			}
		}
	case "envversions":
		// protocolVersion: the offered list is parsed when the variable is non-empty
		f := p.Fn("protocolVersion")
		if f == nil {
			return
		}
		info := f.Pkg.TypesInfo
		g := p.Graph(f)
		for _, call := range f.Calls() {
			nm := p.CalleeName(f, call)
			if nm != "strings.Split" && nm != "strings.SplitSeq" && nm != "strings.FieldsFunc" {
				continue
			}
			vv := identObj(info, call.Args[0])
			node := g.NodeOf(call)
			if vv == nil || node == nil {
				continue
			}
			wrong := g.OnlyViaEdge(node, func(e *Edge) bool {
				at, ok := edgeAtom(info, e)
				if !ok || at.Kind != "cmp" || at.Op != token.EQL || identObj(info, at.X) != vv {
					return false
				}
				s, isS := constString(info, at.Y)
				return isS && s == ""
			})
			construct := "the offered version list is parsed when it is present"
			if wrong {
				c.R.Violate("R-NEG", p.Pos(call), f.Name, construct, "the list of versions the host offers is split only on the edge on which the variable is empty: a host that sends a list is treated as if it had sent none and is offered the plugin's lowest version", nil)
			} else {
				c.R.Hold("R-NEG", p.Pos(call), f.Name, construct, "the split is not confined to the empty-value edge", true)
			}
		}
	case "serveexit":
		// Serve's deferred exit: os.Exit(exitCode) happens outside test mode
		f := p.Fn("Serve")
		if f == nil {
			return
		}
		testF := p.FieldObj(modPath, "ServeConfig", "Test")
		for _, lf := range p.Funcs {
			if lf.Lit == nil || lf.Parent != f {
				continue
			}
			info := lf.Pkg.TypesInfo
			g := p.Graph(lf)
			for _, call := range lf.Calls() {
				if p.CalleeName(lf, call) != "os.Exit" {
					continue
				}
				node := g.NodeOf(call)
				if node == nil {
					continue
				}
				wrong := g.OnlyViaEdge(node, func(e *Edge) bool {
					at, ok := edgeAtom(info, e)
					return ok && at.Kind == "nil" && at.Op == token.NEQ && SelField(info, at.X) == testF
				})
				construct := "the exit status is delivered outside test mode"
				if wrong {
					c.R.Violate("R-GATE/cookie", p.Pos(call), lf.Name, construct, "os.Exit(exitCode) is reachable only in test mode: a real plugin binary started without the cookie prints its message and then returns from Serve to the plugin's main (exit status 0, and whatever main does next)", nil)
				} else {
					c.R.Hold("R-GATE/cookie", p.Pos(call), lf.Name, construct, "the deferred os.Exit is not confined to the test-mode edge", true)
				}
			}
		}
	case "servemux":
		f := p.Fn("ServeMux")
		if f == nil {
			return
		}
		info := f.Pkg.TypesInfo
		g := p.Graph(f)
		// the first os.Exit: on the edge len(os.Args) != 2
		for _, m := range g.Nodes {
			for _, e := range m.Succs {
				at, ok := edgeAtom(info, e)
				if !ok || at.Kind != "len" || at.K != 2 {
					continue
				}
				if se, isSel := ast.Unparen(at.X).(*ast.SelectorExpr); !isSel || se.Sel.Name != "Args" {
					continue
				}
				if at.Op != token.EQL {
					continue
				}
				// on the == 2 edge no os.Exit may be reached before the plugin name is looked up
				seen := g.Reach([]*Node{e.To}, func(x *Node) bool {
					if x.Ast == nil {
						return false
					}
					if as, isAs := x.Ast.(*ast.AssignStmt); isAs && len(as.Rhs) == 1 {
						if _, isIx := ast.Unparen(as.Rhs[0]).(*ast.IndexExpr); isIx {
							return true
						}
					}
					return false
				}, nil)
				bad := false
				for x := range seen {
					if x.Ast == nil {
						continue
					}
					for _, call := range callsIn(x.Ast) {
						if p.CalleeName(f, call) == "os.Exit" {
							bad = true
						}
					}
				}
				construct := "a proper invocation (one argument) is not refused"
				if bad {
					c.R.Violate("R-GATE/cookie", p.Pos(f.Node()), f.Name, construct, "with exactly one argument ServeMux exits with the usage error, and with any other number it goes on to index os.Args[1]: every multiplexed plugin binary refuses to start (or panics)", nil)
				} else {
					c.R.Hold("R-GATE/cookie", p.Pos(f.Node()), f.Name, construct, "no os.Exit is reachable from the len(os.Args) == 2 edge before the lookup", true)
				}
			}
		}
	}
}

func polarity(which string) func(*Ctx) { return func(c *Ctx) { rulePolarity(c, which) } }

// ---------- G-proto/value: with a protocol field on the line, the reported protocol is that field ----------

// ruleProtoFromLine: on every feasible path from the edge `len(parts) >= 5` to
// a commit, the value last stored into Client.protocol derives from parts[4]
// (through conversions and copies) and not from a constant. The net/rpc
// default is for lines without the field; applying it to a field that is
// present but empty accepts a line whose protocol is not in the allowed list
// and reports a protocol the line does not carry.
func ruleProtoFromLine(c *Ctx) {
	p := c.P
	si := p.startInfo(c, "R-GATE")
	if si == nil {
		return
	}
	f, g, info := si.f, si.g, si.info
	protoF := p.FieldObj(modPath, "Client", "protocol")
	var starts []*Node
	for _, m := range g.Nodes {
		for _, e := range m.Succs {
			at, ok := edgeAtom(info, e)
			if !ok || at.Kind != "len" || identObj(info, at.X) != types.Object(si.parts) {
				continue
			}
			if (at.Op == token.GEQ && at.K == 5) || (at.Op == token.GTR && at.K == 4) {
				starts = append(starts, e.To)
			}
		}
	}
	if len(starts) == 0 {
		c.R.Undecided("R-GATE", f.Name, "G-proto/value", "no edge `len(parts) >= 5` found")
		return
	}
	origin := func(s Store, e ast.Expr) string {
		e = ast.Unparen(e)
		for i := 0; i < 3; i++ {
			if call, ok := e.(*ast.CallExpr); ok && len(call.Args) == 1 {
				if tv, ok := info.Types[call.Fun]; ok && tv.IsType() {
					e = ast.Unparen(call.Args[0])
					continue
				}
			}
			break
		}
		if ix, ok := e.(*ast.IndexExpr); ok && identObj(info, ix.X) == types.Object(si.parts) {
			if k, isK := constInt(info, ix.Index); isK && k == 4 {
				return "F5"
			}
		}
		if _, isS := constString(info, e); isS {
			return "K"
		}
		if v, ok := identObj(info, e).(*types.Var); ok && !v.IsField() {
			return s.Get("O:" + varKey(v))
		}
		return ""
	}
	pd := &pathDomain{p: p, f: f}
	type item struct {
		n *Node
		s Store
	}
	seen := map[*Node]map[string]bool{}
	var work []item
	push := func(n *Node, s Store) {
		k := s.Key()
		if seen[n] == nil {
			seen[n] = map[string]bool{}
		}
		if seen[n][k] || len(seen[n]) >= stateCap {
			return
		}
		seen[n][k] = true
		work = append(work, item{n, s})
	}
	for _, st := range starts {
		push(st, NewStore())
	}
	isCommit := map[*Node]bool{}
	for _, m := range si.commits {
		isCommit[m] = true
	}
	var bad *Node
	nCommit := 0
	for len(work) > 0 && bad == nil {
		cur := work[len(work)-1]
		work = work[:len(work)-1]
		if isCommit[cur.n] {
			nCommit++
			if cur.s.Get("O:CP") == "K" {
				bad = cur.n
			}
			continue
		}
		outs := []Store{cur.s}
		if cur.n.Kind == NNormal {
			outs = pd.Transfer(cur.n, cur.s)
		}
		for _, o := range outs {
			if as, ok := cur.n.Ast.(*ast.AssignStmt); ok && len(as.Lhs) == len(as.Rhs) {
				for i, l := range as.Lhs {
					og := origin(cur.s, as.Rhs[i])
					key := ""
					if SelField(info, l) == protoF {
						key = "O:CP"
					} else if v, ok := identObj(info, l).(*types.Var); ok && !v.IsField() {
						key = "O:" + varKey(v)
					}
					if key == "" {
						continue
					}
					if og == "" {
						o = o.Without(key)
					} else {
						o = o.With(key, og)
					}
				}
			}
			if vs, ok := cur.n.Ast.(*ast.ValueSpec); ok && len(vs.Values) == len(vs.Names) {
				for i, nm := range vs.Names {
					if v, ok := info.Defs[nm].(*types.Var); ok {
						if og := origin(cur.s, vs.Values[i]); og != "" {
							o = o.With("O:"+varKey(v), og)
						}
					}
				}
			}
			for _, e := range cur.n.Succs {
				if s2, ok := pd.Refine(e, o); ok {
					push(e.To, s2)
				}
			}
		}
	}
	construct := "G-proto/value"
	if bad != nil {
		c.R.Violate("R-GATE", p.Pos(bad.Ast), f.Name, construct,
			"on a line that has a protocol field the value stored in Client.protocol can be a constant (the net/rpc default) instead of the field: a present-but-empty protocol field is then accepted as net/rpc although it is not in the allowed list, and the reported protocol is not the one on the line", nil)
	} else {
		c.R.Hold("R-GATE", p.Pos(starts[0].Ast), f.Name, construct, fmt.Sprintf("on every feasible path from `len(parts) >= 5` to a commit the last store to Client.protocol does not carry a constant (%d commit arrivals)", nCommit), true)
	}
}

// ---------- R-NIL/result: a result that can be nil together with a nil error is guarded before use ----------

// ruleNilResult: a module function with an explicit `return nil, nil` hands out
// a nil pointer without an error. At every call site whose value result is
// bound, a method call or field access through that value must be behind a
// `v != nil` test or the true edge of a predicate of the value that implies it
// (a method whose body is `return recv != nil`), unless the method called is
// itself safe on a nil receiver.
func ruleNilResult(c *Ctx) {
	p := c.P
	// functions with a pointer result #0 and an explicit `return nil, nil`
	nilNil := map[*Func]bool{}
	for _, f := range p.Funcs {
		if f.Decl == nil || f.Type.Results == nil || f.Obj == nil {
			continue
		}
		sig := f.Obj.Type().(*types.Signature)
		if sig.Results().Len() != 2 || !isErrorType(sig.Results().At(1).Type()) {
			continue
		}
		if _, isPtr := sig.Results().At(0).Type().Underlying().(*types.Pointer); !isPtr {
			continue
		}
		info := f.Pkg.TypesInfo
		walkNoLit(f.Body, func(x ast.Node) bool {
			if rs, ok := x.(*ast.ReturnStmt); ok && len(rs.Results) == 2 && isNilIdent(info, rs.Results[0]) && isNilIdent(info, rs.Results[1]) {
				nilNil[f] = true
			}
			return true
		})
	}
	// methods safe on a nil receiver / predicates that imply a non-nil receiver
	nilSafe := map[*types.Func]bool{}
	impliesNN := map[*types.Func]bool{}
	for _, f := range p.Funcs {
		if f.Decl == nil || f.Decl.Recv == nil || len(f.Decl.Recv.List) != 1 || len(f.Decl.Recv.List[0].Names) != 1 || f.Obj == nil {
			continue
		}
		info := f.Pkg.TypesInfo
		rv := info.Defs[f.Decl.Recv.List[0].Names[0]]
		if rv == nil || len(f.Body.List) == 0 {
			continue
		}
		// `return recv != nil` (possibly && more)
		if rs, ok := f.Body.List[0].(*ast.ReturnStmt); ok && len(rs.Results) == 1 {
			e := ast.Unparen(rs.Results[0])
			for {
				if be, ok := e.(*ast.BinaryExpr); ok && be.Op == token.LAND {
					e = ast.Unparen(be.X)
					continue
				}
				break
			}
			if be, ok := e.(*ast.BinaryExpr); ok && be.Op == token.NEQ && identObj(info, be.X) == rv && isNilIdent(info, be.Y) {
				nilSafe[f.Obj] = true
				impliesNN[f.Obj] = true
			}
		}
		// `if recv == nil { return ... }` first
		if ifs, ok := f.Body.List[0].(*ast.IfStmt); ok {
			if be, ok := ast.Unparen(ifs.Cond).(*ast.BinaryExpr); ok && be.Op == token.EQL && identObj(info, be.X) == rv && isNilIdent(info, be.Y) {
				nilSafe[f.Obj] = true
			}
		}
	}
	n := 0
	for _, f := range p.Funcs {
		if strings.HasSuffix(p.Fset.Position(f.Body.Pos()).Filename, "testing.go") {
			continue
		}
		info := f.Pkg.TypesInfo
		g := p.Graph(f)
		for _, m := range g.Nodes {
			as, ok := m.Ast.(*ast.AssignStmt)
			if !ok || len(as.Rhs) != 1 || len(as.Lhs) != 2 {
				continue
			}
			call, ok := ast.Unparen(as.Rhs[0]).(*ast.CallExpr)
			if !ok {
				continue
			}
			ce := p.FnOf(asFunc(p.Callee(f, call)))
			if ce == nil || !nilNil[ce] {
				continue
			}
			v, _ := identObj(info, as.Lhs[0]).(*types.Var)
			if v == nil || v.Name() == "_" {
				continue
			}
			n++
			cut := func(e *Edge) bool {
				at, ok := edgeAtom(info, e)
				if !ok {
					return false
				}
				if at.Kind == "nil" && at.Op == token.NEQ && identObj(info, at.X) == v {
					return true
				}
				if at.Kind == "call" && at.True {
					if pc, isC := at.X.(*ast.CallExpr); isC {
						if se, isS := ast.Unparen(pc.Fun).(*ast.SelectorExpr); isS && identObj(info, se.X) == v {
							if fo, isF := p.Callee(f, pc).(*types.Func); isF && impliesNN[fo.Origin()] {
								return true
							}
						}
					}
				}
				return false
			}
			redef := func(x *Node) bool {
				if x.Ast == nil || x == m {
					return false
				}
				defs, _ := nodeDefsUses(info, x.Ast)
				_, re := defs[v]
				return re
			}
			seen := g.ReachAfter(m, redef, cut)
			var bad ast.Node
			for x := range seen {
				if x.Ast == nil {
					continue
				}
				// including closures created here: they capture the value as it is
				ast.Inspect(x.Ast, func(y ast.Node) bool {
					se, ok := y.(*ast.SelectorExpr)
					if !ok || identObj(info, se.X) != v {
						return true
					}
					if fo, isF := info.Uses[se.Sel].(*types.Func); isF {
						if nilSafe[fo.Origin()] {
							return true
						}
					}
					bad = se
					return true
				})
			}
			construct := "result of " + ce.Name + " guarded before use"
			if bad != nil {
				c.R.Violate("R-NIL/result", p.Pos(bad), f.Name, construct,
					ce.Name+" can return a nil value together with a nil error, and `"+exprStr(bad)+"` uses the value on a path that has not established that it is non-nil (no `!= nil` test, no nil-safe predicate of the value on its true edge): the host dereferences a nil pointer", nil)
			} else {
				c.R.Hold("R-NIL/result", p.Pos(as), f.Name, construct, "every use through the value is behind a non-nil test, a predicate that implies it, or calls a nil-safe method", true)
			}
		}
	}
	if n == 0 {
		c.R.Undecided("R-NIL/result", "", "instance-floor", "no call site of a function that can return (nil, nil) found, at least 1 expected (getGRPCMuxer)")
	}
}

// ---------- R-DEFER/args: what a deferred call is meant to see later is not evaluated now ----------

// ruleDeferArgs: the arguments of a deferred call are evaluated when the defer
// statement executes. An argument that asks an object for its final state
// (`x.Err()`), or an error variable that is assigned again afterwards, hands
// the deferred function the value from before the work was done.
func ruleDeferArgs(c *Ctx) {
	p := c.P
	n, bad := 0, 0
	for _, f := range p.Funcs {
		if strings.HasSuffix(p.Fset.Position(f.Body.Pos()).Filename, "testing.go") {
			continue
		}
		info := f.Pkg.TypesInfo
		g := p.Graph(f)
		for _, m := range g.Nodes {
			ds, ok := m.Ast.(*ast.DeferStmt)
			if !ok {
				continue
			}
			if _, isLit := ast.Unparen(ds.Call.Fun).(*ast.FuncLit); isLit && len(ds.Call.Args) == 0 {
				continue
			}
			n++
			for _, a := range ds.Call.Args {
				why := ""
				ast.Inspect(a, func(x ast.Node) bool {
					if _, isLit := x.(*ast.FuncLit); isLit {
						return false
					}
					if call, ok := x.(*ast.CallExpr); ok {
						if se, ok := ast.Unparen(call.Fun).(*ast.SelectorExpr); ok && se.Sel.Name == "Err" && len(call.Args) == 0 {
							why = "`" + exprStr(call) + "` is evaluated when the defer statement runs, before the work whose outcome it is meant to report"
						}
					}
					return true
				})
				if v, ok := identObj(info, a).(*types.Var); ok && why == "" && isErrorType(v.Type()) && !v.IsField() {
					// assigned again after the defer?
					for x := range g.ReachAfter(m, nil, nil) {
						if x.Ast == nil {
							continue
						}
						defs, _ := nodeDefsUses(info, x.Ast)
						if _, re := defs[v]; re {
							why = "the error variable `" + v.Name() + "` is passed by value at the defer statement and assigned again afterwards (" + p.Pos(x.Ast) + ")"
						}
					}
				}
				if why != "" {
					bad++
					c.R.Violate("R-DEFER/args", p.Pos(ds), f.Name, "deferred call sees the final state: "+exprStr(ds.Call.Fun),
						why+": the deferred function always receives the early (nil) value, so the clean-up or fallback it guards never happens", nil)
				}
			}
		}
	}
	// the same slip after the arguments were hoisted into locals (which is what
	// the normaliser does when it inlines a deferred helper call): a snapshot
	// `v := x.Err()` taken before x is advanced (Scan, Read, Next, Recv) and
	// read afterwards or in a deferred closure
	for _, f := range p.Funcs {
		if strings.HasSuffix(p.Fset.Position(f.Body.Pos()).Filename, "testing.go") {
			continue
		}
		info := f.Pkg.TypesInfo
		g := p.Graph(f)
		for _, m := range g.Nodes {
			as, ok := m.Ast.(*ast.AssignStmt)
			if !ok || len(as.Lhs) != 1 || len(as.Rhs) != 1 {
				continue
			}
			call, ok := ast.Unparen(as.Rhs[0]).(*ast.CallExpr)
			if !ok || len(call.Args) != 0 {
				continue
			}
			se, ok := ast.Unparen(call.Fun).(*ast.SelectorExpr)
			if !ok || se.Sel.Name != "Err" {
				continue
			}
			xo := identObj(info, se.X)
			v, _ := identObj(info, as.Lhs[0]).(*types.Var)
			if xo == nil || v == nil {
				continue
			}
			advanced := false
			usedLater := false
			after := g.ReachAfter(m, nil, nil)
			for x := range after {
				if x.Ast == nil {
					continue
				}
				ast.Inspect(x.Ast, func(y ast.Node) bool {
					if c2, ok := y.(*ast.CallExpr); ok {
						if s2, ok := ast.Unparen(c2.Fun).(*ast.SelectorExpr); ok && identObj(info, s2.X) == xo {
							switch s2.Sel.Name {
							case "Scan", "Read", "ReadLine", "ReadString", "ReadBytes", "Next", "Recv":
								advanced = true
							}
						}
					}
					if id, ok := y.(*ast.Ident); ok && info.Uses[id] == v {
						usedLater = true
					}
					return true
				})
			}
			if advanced && usedLater {
				bad++
				c.R.Violate("R-DEFER/args", p.Pos(as), f.Name, "snapshot of "+exprStr(call)+" is not taken before the work",
					"`"+exprStr(as.Lhs[0])+"` records "+exprStr(call)+" before "+exprStr(se.X)+" is advanced and is consulted afterwards (in a deferred call or later): it always holds the initial nil, so the fallback it guards (draining the rest of the pipe) never runs", nil)
			}
		}
	}
	if bad == 0 {
		c.R.Hold("R-DEFER/args", "-", "", "deferred calls do not capture a not-yet-final state", fmt.Sprintf("%d defer statements with arguments or a named callee examined", n), true)
	}
}

// ---------- R-TABLE/stdio sinks: the synced streams go to the sync writers ----------

func ruleSyncSinks(c *Ctx) {
	p := c.P
	outF := p.FieldObj(modPath, "ClientConfig", "SyncStdout")
	errF := p.FieldObj(modPath, "ClientConfig", "SyncStderr")
	n := 0
	type wiringSite struct {
		f    *Func
		call *ast.CallExpr
	}
	wired := map[string][]wiringSite{}
	seenSite := map[*ast.CallExpr]bool{}
	for _, f := range p.Funcs {
		if strings.HasSuffix(p.Fset.Position(f.Body.Pos()).Filename, "testing.go") {
			continue
		}
		info := f.Pkg.TypesInfo
		ast.Inspect(f.Body, func(x ast.Node) bool {
			call, ok := x.(*ast.CallExpr)
			if !ok || len(call.Args) != 2 {
				return true
			}
			nm := p.CalleeName(f, call)
			if nm != modPath+".RPCClient.SyncStreams" && nm != modPath+".grpcStdioClient.Run" {
				return true
			}
			n++
			if !seenSite[call] {
				seenSite[call] = true
				holder := p.EnclosingFunc(call)
				if holder == nil {
					holder = f
				}
				wired[nm] = append(wired[nm], wiringSite{holder, call})
			}
			resolve := func(e ast.Expr) *types.Var {
				e = ast.Unparen(p.Deref(f, e))
				return SelField(info, e)
			}
			a, b := resolve(call.Args[0]), resolve(call.Args[1])
			construct := "sinks of " + shortName(nm)
			if a == outF && b == errF && outF != nil {
				c.R.Hold("R-TABLE/stdio", p.Pos(call), f.Name, construct, "(ClientConfig.SyncStdout, ClientConfig.SyncStderr)", true)
			} else {
				c.R.Violate("R-TABLE/stdio", p.Pos(call), f.Name, construct,
					"the synced streams are handed ("+exprStr(call.Args[0])+", "+exprStr(call.Args[1])+") instead of (config.SyncStdout, config.SyncStderr): the plugin's synced output goes to another writer (ClientConfig.Stderr is the sink of the process's own stderr and defaults to discard) and never reaches the sync writer", nil)
			}
			return true
		})
	}
	if n < 2 {
		c.R.Undecided("R-TABLE/stdio", "", "sinks", fmt.Sprintf("only %d calls that wire the sync writers found, 2 expected (net/rpc and gRPC)", n))
	}
	// the streams of one client are wired once: both wiring methods start
	// copy goroutines that read the stream until it ends, and two of them on
	// one stream take turns at its bytes. No run of a function executes two
	// wiring calls: no two sites share a function, and no site's function
	// reaches (by calls, not goroutines of other clients) the function of
	// another site.
	var names []string
	for nm := range wired {
		names = append(names, nm)
	}
	sort.Strings(names)
	for _, nm := range names {
		sites := wired[nm]
		construct := "streams wired once: " + shortName(nm)
		bad := false
		for i, a := range sites {
			reach := p.ReachableFuncs([]*Func{a.f}, true)
			for j, b := range sites {
				if i == j {
					continue
				}
				if _, ok := reach[b.f]; ok && (a.f != b.f || i < j) {
					bad = true
					c.R.Violate("R-TABLE/stdio", p.Pos(a.call), a.f.Name, construct,
						fmt.Sprintf("%s calls %s and also runs the call at %s (in %s): two copy goroutines read each stream and pieces of it reach the sync writer out of order", a.f.Name, shortName(nm), p.Pos(b.call), b.f.Name), nil)
				}
			}
		}
		if !bad && len(sites) > 0 {
			c.R.Hold("R-TABLE/stdio", p.Pos(sites[0].call), sites[0].f.Name, construct, fmt.Sprintf("%d call site(s), no function runs two of them", len(sites)), true)
		}
	}
}

// ---------- R-GUARD/iter: a lazy iterator over a guarded map is consumed under the lock ----------

// ruleLazyIter: maps.Keys / maps.Values / maps.All (and slices.Values/All)
// return iterators that read the collection while they are ranged over, not
// when they are created. An iterator created from a struct field with a mutex
// held must be consumed with that mutex still held; ranging over it after the
// unlock reads the map concurrently with its writers.
func ruleLazyIter(c *Ctx) {
	p := c.P
	n, bad := 0, 0
	for _, f := range p.Funcs {
		if strings.HasSuffix(p.Fset.Position(f.Body.Pos()).Filename, "testing.go") {
			continue
		}
		info := f.Pkg.TypesInfo
		g := p.Graph(f)
		for _, call := range f.Calls() {
			switch p.CalleeName(f, call) {
			case "maps.Keys", "maps.Values", "maps.All", "slices.Values", "slices.All":
			default:
				continue
			}
			if len(call.Args) != 1 || SelField(info, call.Args[0]) == nil {
				continue
			}
			mk := g.NodeOf(call)
			if mk == nil {
				continue
			}
			heldAtMake := p.MustHeldAt(f, mk)
			if len(heldAtMake) == 0 {
				continue
			}
			n++
			// where is it consumed: a range over the call itself or over the variable it was bound to
			var itVar *types.Var
			if as, ok := p.Parent(call).(*ast.AssignStmt); ok && len(as.Lhs) == 1 {
				itVar, _ = identObj(info, as.Lhs[0]).(*types.Var)
			}
			ast.Inspect(f.Body, func(x ast.Node) bool {
				rs, ok := x.(*ast.RangeStmt)
				if !ok {
					return true
				}
				src := ast.Unparen(rs.X)
				if src != ast.Expr(call) && (itVar == nil || identObj(info, src) != itVar) {
					return true
				}
				// the loop body executes with the locks held at its first statement
				var at *Node
				if len(rs.Body.List) > 0 {
					at = g.NodeOf(rs.Body.List[0])
				}
				if at == nil {
					at = g.NodeOf(rs.X)
				}
				heldAtUse := lockSet{}
				if at != nil {
					heldAtUse = p.MustHeldAt(f, at)
				}
				for mu := range heldAtMake {
					if !heldAtUse[mu] {
						bad++
						c.R.Violate("R-GUARD/iter", p.Pos(rs), f.Name, "iterator over "+exprStr(call.Args[0])+" consumed under "+p.lockName(mu),
							exprStr(call.Fun)+" returns a lazy iterator: the map is read while this loop runs, and "+p.lockName(mu)+" - held when the iterator was created - has been released by then, so the iteration races with the writers of the map (a concurrent insert is a fatal \"concurrent map iteration and map write\")", nil)
					}
				}
				return true
			})
		}
	}
	if bad == 0 {
		c.R.Hold("R-GUARD/iter", "-", "", "lazy iterators over guarded collections", fmt.Sprintf("%d iterator(s) created under a mutex; each is consumed with that mutex held", n), n > 0)
	}
}

// ---------- R-ADDR/immutable: a resolved address is never modified in place ----------

// ruleAddrImmutable: the address a client reports (Client.address, the value
// Start returns, ReattachConfig.Addr) is a pointer to a net.TCPAddr or
// net.UnixAddr shared by every holder; the module never assigns a field of
// such a value (nor an element of its IP), so whoever holds the address keeps
// seeing what the handshake said.
func ruleAddrImmutable(c *Ctx) {
	p := c.P
	n, bad := 0, 0
	for _, f := range p.Funcs {
		if strings.HasSuffix(p.Fset.Position(f.Body.Pos()).Filename, "testing.go") {
			continue
		}
		info := f.Pkg.TypesInfo
		walkNoLit(f.Body, func(x ast.Node) bool {
			as, ok := x.(*ast.AssignStmt)
			if !ok {
				return true
			}
			for _, l := range as.Lhs {
				target := ast.Unparen(l)
				for {
					if ix, isIx := target.(*ast.IndexExpr); isIx {
						target = ast.Unparen(ix.X)
						continue
					}
					break
				}
				se, isSel := target.(*ast.SelectorExpr)
				if !isSel {
					continue
				}
				t := info.TypeOf(se.X)
				if t == nil {
					continue
				}
				if pt, isP := t.Underlying().(*types.Pointer); isP {
					t = pt.Elem()
				}
				switch t.String() {
				case "net.TCPAddr", "net.UnixAddr", "net.UDPAddr", "net.IPAddr":
					n++
					// a value under construction in this function is not shared yet
					if rv := rootVar(info, se); rv != nil && freshLocals(p, f)[rv] {
						continue
					}
					bad++
					c.R.Violate("R-ADDR/immutable", p.Pos(as), f.Name, "write "+t.String()+"."+se.Sel.Name,
						"a resolved network address is modified in place: the same pointer is what Start returned, what Client.address and ReattachConfig.Addr hold, so every holder now sees a different address than the plugin announced", nil)
				}
			}
			return true
		})
	}
	if bad == 0 {
		c.R.Hold("R-ADDR/immutable", "-", "", "no field of a net address is assigned", fmt.Sprintf("%d assignments to fields of net.TCPAddr/UnixAddr values in the module, none to a shared one", n), true)
	}
}

// ---------- R-MUX/window: nothing shortens or ends the multiplexed hand-shake window ----------

// ruleMuxWindow: three things a multiplexed brokered connection relies on.
// (a) The dial options the library builds leave gRPC's connect timing alone:
// with multiplexing the dialer blocks inside the gRPC dial while the knock
// waits (up to the 5 s pending window) for the peer's Accept, so a connect
// deadline or back-off shorter than gRPC's default makes gRPC drop the stream
// just as the late acknowledgement arrives. (b) A brokered server accepted with
// AcceptAndServe lives until its server or the broker stops: no timer ends it
// (with multiplexing nothing expires on the dialling side, a knock may arrive at
// any time). (c) Dial does not wait for the connection to become ready: the
// peer's Accept may legitimately be issued after Dial has returned.
func ruleMuxWindow(c *Ctx) {
	p := c.P
	timing := map[string]bool{
		"google.golang.org/grpc.WithConnectParams": true, "google.golang.org/grpc.WithBackoffConfig": true,
		"google.golang.org/grpc.WithBackoffMaxDelay": true, "google.golang.org/grpc.WithTimeout": true,
		"google.golang.org/grpc.WithBlock": true, "google.golang.org/grpc.WithIdleTimeout": true,
		"google.golang.org/grpc.WithKeepaliveParams": true, "google.golang.org/grpc.WithReturnConnectionError": true,
	}
	nA := 0
	for _, f := range p.Funcs {
		if strings.HasSuffix(p.Fset.Position(f.Body.Pos()).Filename, "testing.go") {
			continue
		}
		for _, call := range f.Calls() {
			if nm := p.CalleeName(f, call); timing[nm] {
				// connect parameters that keep gRPC's own connect deadline (20 s, well
				// above the pending window) only change how fast a failed attempt is
				// retried
				if nm == "google.golang.org/grpc.WithConnectParams" && len(call.Args) == 1 {
					cl, ok := ast.Unparen(p.Deref(f, call.Args[0])).(*ast.CompositeLit)
					if !ok {
						// a package-level variable initialised with the literal and never written
						if v, isV := identObj(f.Pkg.TypesInfo, call.Args[0]).(*types.Var); isV && v.Pkg() != nil && v.Parent() == v.Pkg().Scope() && p.pkgVarNeverWritten(v) {
							cl = p.pkgVarLiteral(f, v)
							ok = cl != nil
						}
					}
					if ok {
						keeps := false
						for _, el := range cl.Elts {
							if kv, ok := el.(*ast.KeyValueExpr); ok {
								if k, ok := kv.Key.(*ast.Ident); ok && k.Name == "MinConnectTimeout" {
									if d := durationConst(f.Pkg.TypesInfo, kv.Value); d >= 20*int64(1e9) {
										keeps = true
									}
								}
							}
						}
						if keeps {
							c.R.Hold("R-MUX/window", p.Pos(call), f.Name, "dial option "+shortName(nm), "MinConnectTimeout is a constant of at least gRPC's default 20 s", true)
							continue
						}
					}
				}
				nA++
				c.R.Violate("R-MUX/window", p.Pos(call), f.Name, "dial option "+shortName(nm),
					"the library adds a dial option that changes gRPC's connect timing (deadline, back-off, blocking, idle or keep-alive behaviour): a multiplexed dial whose knock is answered within the pending window can then be torn down by gRPC itself", nil)
			}
		}
	}
	if nA == 0 {
		c.R.Hold("R-MUX/window", "-", "", "dial options leave gRPC's connect timing alone", "no connect-timing dial option is constructed in the module", true)
	}
	timers := map[string]bool{"time.After": true, "time.NewTimer": true, "time.AfterFunc": true, "time.Tick": true, "time.NewTicker": true,
		"context.WithTimeout": true, "context.WithDeadline": true, "time.Sleep": true}
	if f := p.Fn("GRPCBroker.AcceptAndServe"); f != nil {
		bad := false
		for _, lf := range p.Funcs {
			root := lf
			for root.Parent != nil {
				root = root.Parent
			}
			if root != f {
				continue
			}
			for _, call := range lf.Calls() {
				if nm := p.CalleeName(lf, call); timers[nm] {
					bad = true
					c.R.Violate("R-MUX/window", p.Pos(call), lf.Name, "a brokered server is not ended by a timer",
						"AcceptAndServe arms a timer ("+shortName(nm)+"): a brokered server must stay available until its gRPC server or the broker stops - on a multiplexed connection the peer's dial may come at any time", nil)
				}
			}
		}
		if !bad {
			c.R.Hold("R-MUX/window", p.Pos(f.Node()), f.Name, "a brokered server is not ended by a timer", "no timer, deadline or sleep in AcceptAndServe or its closures", true)
		}
		// ... but it does end with the broker: AcceptAndServe (or a closure of it)
		// waits on the broker's done channel. Closing the recorded listeners is
		// not enough - a multiplexed listener is not one of them.
		doneF := p.FieldObj(modPath, "GRPCBroker", "doneCh")
		listenersF := p.FieldObj(modPath, "GRPCBroker", "listeners")
		waitsDone := false
		var pollPos, trackPos token.Pos
		for _, lf := range p.Funcs {
			root := lf
			for root.Parent != nil {
				root = root.Parent
			}
			if root != f {
				continue
			}
			linfo := lf.Pkg.TypesInfo
			ast.Inspect(lf.Body, func(x ast.Node) bool {
				if u, ok := x.(*ast.UnaryExpr); ok && u.Op == token.ARROW && SelField(linfo, u.X) == doneF {
					// a poll (select with a default clause) is not a wait
					polled := false
					for cur := p.Parent(u); cur != nil; cur = p.Parent(cur) {
						if sel, isSel := cur.(*ast.SelectStmt); isSel {
							for _, cl := range sel.Body.List {
								if cl.(*ast.CommClause).Comm == nil {
									polled = true
								}
							}
							break
						}
						if _, isLit := cur.(*ast.FuncLit); isLit {
							break
						}
					}
					if !polled {
						waitsDone = true
					} else if pollPos == token.NoPos || u.Pos() > pollPos {
						pollPos = u.Pos()
					}
				}
				if as, ok := x.(*ast.AssignStmt); ok {
					for _, l := range as.Lhs {
						if ix, isIx := ast.Unparen(l).(*ast.IndexExpr); isIx && SelField(linfo, ix.X) == listenersF && listenersF != nil {
							if trackPos == token.NoPos || as.Pos() < trackPos {
								trackPos = as.Pos()
							}
						}
					}
				}
				return true
			})
		}
		if waitsDone {
			c.R.Hold("R-MUX/window", p.Pos(f.Node()), f.Name, "a brokered server ends when the broker closes", "AcceptAndServe waits on GRPCBroker.doneCh", true)
		} else if trackPos != token.NoPos && pollPos > trackPos {
			c.R.Hold("R-MUX/window", p.Pos(f.Node()), f.Name, "a brokered server ends when the broker closes", "AcceptAndServe records the listener it serves on in GRPCBroker.listeners (Close closes those, R-RES/brokerls) and then polls GRPCBroker.doneCh for a Close that has already run", true)
		} else {
			c.R.Violate("R-MUX/window", p.Pos(f.Node()), f.Name, "a brokered server ends when the broker closes",
				"nothing in AcceptAndServe waits on the broker's done channel: on a multiplexed connection (whose listeners the broker does not record) the serving goroutine and its knock listener outlive the broker", nil)
		}
	} else {
		c.R.Undecided("R-MUX/window", "GRPCBroker.AcceptAndServe", "anchor", "function not found")
	}
	waits := map[string]bool{"google.golang.org/grpc.ClientConn.WaitForStateChange": true, "google.golang.org/grpc.ClientConn.Connect": true,
		"google.golang.org/grpc.ClientConn.GetState": true}
	for _, name := range []string{"GRPCBroker.DialWithOptions", "GRPCBroker.Dial"} {
		f := p.Fn(name)
		if f == nil {
			c.R.Undecided("R-MUX/window", name, "anchor", "function not found")
			continue
		}
		bad := false
		for _, lf := range p.Funcs {
			root := lf
			for root.Parent != nil {
				root = root.Parent
			}
			if root != f {
				continue
			}
			for _, call := range lf.Calls() {
				if nm := p.CalleeName(lf, call); waits[nm] {
					bad = true
					c.R.Violate("R-MUX/window", p.Pos(call), lf.Name, "Dial does not wait for readiness",
						"the brokered dial inspects or waits for the connection state ("+shortName(nm)+"): Dial must return the lazily connecting ClientConn, because the peer may only accept after Dial has returned", nil)
				}
			}
		}
		if !bad {
			c.R.Hold("R-MUX/window", p.Pos(f.Node()), f.Name, "Dial does not wait for readiness", "no WaitForStateChange/Connect/GetState on the dialled connection", true)
		}
	}
}

// pkgVarNeverWritten: no function of the module assigns the package-level
// variable v (whole, a field or an element of it) or takes its address.
func (p *Prog) pkgVarNeverWritten(v *types.Var) bool {
	ok := true
	for _, f := range p.Funcs {
		if f.Body == nil {
			continue
		}
		info := f.Pkg.TypesInfo
		ast.Inspect(f.Body, func(x ast.Node) bool {
			switch s := x.(type) {
			case *ast.AssignStmt:
				for _, l := range s.Lhs {
					if rootObjOf(info, l) == types.Object(v) {
						ok = false
					}
				}
			case *ast.IncDecStmt:
				if rootObjOf(info, s.X) == types.Object(v) {
					ok = false
				}
			case *ast.UnaryExpr:
				if s.Op == token.AND && rootObjOf(info, s.X) == types.Object(v) {
					ok = false
				}
			}
			return ok
		})
	}
	return ok
}

// rootObjOf strips selectors, indexing and parentheses and returns the object
// of the identifier underneath.
func rootObjOf(info *types.Info, e ast.Expr) types.Object {
	for {
		switch x := ast.Unparen(e).(type) {
		case *ast.SelectorExpr:
			if _, isPkg := info.Uses[identOrNil(x.X)].(*types.PkgName); isPkg {
				return info.Uses[x.Sel]
			}
			e = x.X
		case *ast.IndexExpr:
			e = x.X
		case *ast.StarExpr:
			e = x.X
		case *ast.Ident:
			return identObj(info, x)
		default:
			return nil
		}
	}
}

func identOrNil(e ast.Expr) *ast.Ident {
	id, _ := ast.Unparen(e).(*ast.Ident)
	return id
}

// ---------- R-COPY/sockcfg: the client's socket configuration is its own copy ----------

// ruleSockCfgOwn: Start writes the directory it created into
// Client.unixSocketCfg.socketDir, and Kill removes what it finds there. That is
// only right while the value is private to the client: whatever is stored
// into Client.unixSocketCfg (by assignment or in a composite literal) is a copy
// of the caller's UnixSocketConfig (`*cfg`), the address of a local copy, or a
// fresh literal - never the caller's pointer itself, which other clients built
// from the same ClientConfig would share.
func ruleSockCfgOwn(c *Ctx) {
	p := c.P
	fld := p.FieldObj(modPath, "Client", "unixSocketCfg")
	cfgF := p.FieldObj(modPath, "ClientConfig", "UnixSocketConfig")
	if fld == nil || cfgF == nil {
		c.R.Undecided("R-COPY/sockcfg", "", "anchor", "Client.unixSocketCfg or ClientConfig.UnixSocketConfig not found")
		return
	}
	n := 0
	for _, f := range p.Funcs {
		info := f.Pkg.TypesInfo
		check := func(site ast.Node, rhs ast.Expr) {
			n++
			r := ast.Unparen(rhs)
			// the caller's pointer itself, directly or through a local bound to it
			alias := SelField(info, r) == cfgF
			if v, ok := identObj(info, r).(*types.Var); ok && !v.IsField() {
				if d := p.singleDef(f, v); d != nil && SelField(info, ast.Unparen(d)) == cfgF {
					alias = true
				}
			}
			if alias {
				c.R.Violate("R-COPY/sockcfg", p.Pos(site), f.Name, "store to Client.unixSocketCfg",
					"the client keeps the caller's *UnixSocketConfig instead of a copy: the socket directory Start creates is written into a structure that every client built from the same configuration shares, so they overwrite each other's directory and Kill removes the wrong one (or none)", nil)
			} else {
				c.R.Hold("R-COPY/sockcfg", p.Pos(site), f.Name, "store to Client.unixSocketCfg", "a copy, the address of a local, or a fresh literal", true)
			}
		}
		ast.Inspect(f.Body, func(x ast.Node) bool {
			switch s := x.(type) {
			case *ast.AssignStmt:
				if len(s.Lhs) == len(s.Rhs) {
					for i, l := range s.Lhs {
						if SelField(info, l) == fld {
							check(s, s.Rhs[i])
						}
					}
				}
			case *ast.KeyValueExpr:
				if k, ok := s.Key.(*ast.Ident); ok && info.Uses[k] == types.Object(fld) {
					check(s, s.Value)
				}
			}
			return true
		})
	}
	if n == 0 {
		c.R.Undecided("R-COPY/sockcfg", "", "instance-floor", "no store to Client.unixSocketCfg found")
	}
}

// ---------- R-GATE/accessor: Protocol() reports the protocol only of an accepted handshake ----------

// ruleProtocolAccessor: Client.Protocol returns the recorded protocol only on
// the success edge of a Start() call made in the same invocation. Start stores
// Client.protocol while it is still validating the handshake line (before the
// allowed-protocol, certificate and multiplexing gates), so the field alone
// says nothing about acceptance.
func ruleProtocolAccessor(c *Ctx) {
	p := c.P
	f := p.Fn("Client.Protocol")
	if f == nil {
		c.R.Undecided("R-GATE/accessor", "Client.Protocol", "anchor", "function not found")
		return
	}
	info := f.Pkg.TypesInfo
	g := p.Graph(f)
	protoF := p.FieldObj(modPath, "Client", "protocol")
	var errV *types.Var
	for _, m := range g.Nodes {
		if m.Ast == nil {
			continue
		}
		for _, call := range callsIn(m.Ast) {
			if p.CalleeName(f, call) == modPath+".Client.Start" {
				errV = assignedErrVar(info, m.Ast)
			}
		}
	}
	if errV == nil {
		c.R.Violate("R-GATE/accessor", p.Pos(f.Node()), f.Name, "protocol reported after a successful Start", "Protocol() does not call Start and test its error", nil)
		return
	}
	okEdge := func(e *Edge) bool {
		at, ok := edgeAtom(info, e)
		return ok && at.Kind == "nil" && at.Op == token.EQL && identObj(info, at.X) == types.Object(errV)
	}
	// the other accepted form: the recorded protocol is returned only when
	// Client.address - the commit store, written last by a successful Start -
	// was read non-nil together with it (same assignment, hence the same
	// critical section)
	addrF := p.FieldObj(modPath, "Client", "address")
	var pairStmt ast.Node
	startedEdge := func(e *Edge) bool {
		at, ok := edgeAtom(info, e)
		if !ok || at.Kind != "nil" || at.Op != token.NEQ {
			return false
		}
		v, ok := identObj(info, at.X).(*types.Var)
		if !ok || v.IsField() {
			return false
		}
		d := p.singleDef(f, v)
		if d == nil || SelField(info, ast.Unparen(d)) != addrF {
			return false
		}
		return pairStmt != nil && pairStmt.Pos() <= d.Pos() && d.End() <= pairStmt.End()
	}
	n, bad := 0, false
	for _, m := range g.Nodes {
		rs, ok := m.Ast.(*ast.ReturnStmt)
		if !ok || len(rs.Results) != 1 {
			continue
		}
		reads := false
		pairStmt = nil
		ast.Inspect(rs.Results[0], func(x ast.Node) bool {
			if se, ok := x.(*ast.SelectorExpr); ok && SelField(info, se) == protoF {
				reads = true
			}
			return true
		})
		if v, ok := identObj(info, rs.Results[0]).(*types.Var); ok && !v.IsField() {
			if d := p.singleDef(f, v); d != nil && SelField(info, ast.Unparen(d)) == protoF {
				reads = true
				ast.Inspect(f.Body, func(x ast.Node) bool {
					if as, ok := x.(*ast.AssignStmt); ok && as.Pos() <= d.Pos() && d.End() <= as.End() {
						pairStmt = as
					}
					return true
				})
			}
		}
		if !reads {
			continue
		}
		n++
		if !g.OnlyViaEdge(m, okEdge) && !g.OnlyViaEdge(m, startedEdge) {
			bad = true
			c.R.Violate("R-GATE/accessor", p.Pos(rs), f.Name, "protocol reported after a successful Start",
				"Protocol() can return the recorded Client.protocol without a Start() of this call having succeeded: Start records the protocol of a handshake line before it has accepted the line, so a refused line's protocol is reported as if the plugin had started", nil)
		}
	}
	if n == 0 {
		c.R.Undecided("R-GATE/accessor", f.Name, "protocol reported after a successful Start", "no return of Client.protocol found")
	} else if !bad {
		c.R.Hold("R-GATE/accessor", p.Pos(f.Node()), f.Name, "protocol reported after a successful Start", "every return of Client.protocol lies on the err == nil edge of the Start() call (or behind a non-nil Client.address read in the same assignment)", true)
	}
}

// ruleVersionAccessor: NegotiatedVersion() reports Client.negotiatedVersion as
// it is - every return hands out the field (or a local bound once to it). 0 is
// a version like any other: a fallback for "the zero value" reports a version
// that was never on the handshake line.
func ruleVersionAccessor(c *Ctx) {
	p := c.P
	f := p.Fn("Client.NegotiatedVersion")
	if f == nil {
		c.R.Undecided("R-GATE/accessor", "Client.NegotiatedVersion", "anchor", "function not found")
		return
	}
	info := f.Pkg.TypesInfo
	fv := p.FieldObj(modPath, "Client", "negotiatedVersion")
	n, bad := 0, false
	walkNoLit(f.Body, func(x ast.Node) bool {
		rs, ok := x.(*ast.ReturnStmt)
		if !ok || len(rs.Results) != 1 {
			return true
		}
		n++
		r := ast.Unparen(rs.Results[0])
		okRet := SelField(info, r) == fv && fv != nil
		if v, isV := identObj(info, r).(*types.Var); isV && !v.IsField() {
			if d := p.singleDef(f, v); d != nil && SelField(info, ast.Unparen(d)) == fv {
				okRet = true
			}
		}
		if !okRet {
			bad = true
			c.R.Violate("R-GATE/accessor", p.Pos(rs), f.Name, "the negotiated version is reported as recorded", "NegotiatedVersion() can return something other than Client.negotiatedVersion ("+exprStr(rs.Results[0])+"): the version reported is then not the one on the handshake line - 0 is a version that can be negotiated, not a marker for \"unset\"", nil)
		}
		return true
	})
	if n == 0 {
		c.R.Undecided("R-GATE/accessor", f.Name, "the negotiated version is reported as recorded", "no return found")
	} else if !bad {
		c.R.Hold("R-GATE/accessor", p.Pos(f.Node()), f.Name, "the negotiated version is reported as recorded", "every return hands out Client.negotiatedVersion", true)
	}
}

// ---------- R-MUX/handoff: the muxers never drop what they hand over ----------

// ruleMuxHandoff: inside internal/grpcmux every channel send hands over
// something that is counted on the other side - a knocked id, an accepted
// stream, the wake-up that licenses exactly one session.Accept(). None of them
// may be lost: no send is an arm of a select that has a default clause. (Two
// knocks coalesced into one wake-up leave a stream in the yamux backlog, where
// the next id's listener picks it up.)
func ruleMuxHandoff(c *Ctx) {
	p := c.P
	n, bad := 0, false
	for _, f := range p.Funcs {
		if f.Pkg.PkgPath != modPath+"/internal/grpcmux" || !notTesting(p, f) {
			continue
		}
		ast.Inspect(f.Body, func(x ast.Node) bool {
			ss, ok := x.(*ast.SendStmt)
			if !ok {
				return true
			}
			if p.EnclosingFunc(ss) != f {
				return true
			}
			n++
			droppable := false
			if cc, isComm := p.Parent(ss).(*ast.CommClause); isComm && cc.Comm == ast.Stmt(ss) {
				if body, isBody := p.Parent(cc).(*ast.BlockStmt); isBody {
					for _, cl := range body.List {
						if other, isCC := cl.(*ast.CommClause); isCC && other.Comm == nil {
							droppable = true
						}
					}
				}
			}
			construct := "send on " + p.chanDesc(f, ss.Chan)
			if droppable {
				bad = true
				c.R.Violate("R-MUX/handoff", p.Pos(ss), f.Name, construct, "this hand-over can be dropped (the select has a default clause): every knock and every wake-up stands for exactly one stream - one that is lost leaves that stream unclaimed in the yamux backlog, and the next listener to accept takes a connection that was dialled for another id", nil)
			} else {
				c.R.Hold("R-MUX/handoff", p.Pos(ss), f.Name, construct, "not an arm of a select with a default clause", true)
			}
			return true
		})
	}
	if n < 4 && !bad {
		c.R.Undecided("R-MUX/handoff", "", "instance-floor", fmt.Sprintf("only %d sends found in internal/grpcmux, 5 were confirmed by hand", n))
	}
}

// ruleReattachReturn: the address a successful reattach() returns is the
// address it recorded in Client.address - Start hands the result of reattach
// straight to its caller, and every later Start returns the field. A return
// names the field, or the expression / local that was stored into it.
func ruleReattachReturn(c *Ctx) {
	p := c.P
	f := p.Fn("Client.reattach")
	if f == nil {
		c.R.Undecided("R-ADDR", "Client.reattach", "anchor", "function not found")
		return
	}
	info := f.Pkg.TypesInfo
	addrF := p.FieldObj(modPath, "Client", "address")
	var stored []ast.Expr
	ast.Inspect(f.Body, func(x ast.Node) bool {
		if as, ok := x.(*ast.AssignStmt); ok && len(as.Lhs) == len(as.Rhs) {
			for i, l := range as.Lhs {
				if SelField(info, l) == addrF && addrF != nil {
					stored = append(stored, ast.Unparen(as.Rhs[i]))
				}
			}
		}
		return true
	})
	n, bad := 0, false
	walkNoLit(f.Body, func(x ast.Node) bool {
		rs, ok := x.(*ast.ReturnStmt)
		if !ok || len(rs.Results) != 2 || !isNilIdent(info, rs.Results[1]) {
			return true
		}
		n++
		r := ast.Unparen(rs.Results[0])
		okRet := SelField(info, r) == addrF && addrF != nil
		for _, st := range stored {
			if exprStr(st) == exprStr(r) {
				okRet = true
			}
			if ro := identObj(info, r); ro != nil && ro == identObj(info, st) {
				okRet = true
			}
		}
		if !okRet {
			bad = true
			c.R.Violate("R-ADDR", p.Pos(rs), f.Name, "reattach returns the address it recorded", "reattach() returns "+exprStr(rs.Results[0])+" while Client.address holds something else: the Start call that attaches reports one address, every later Start call (and the dialer) uses another", nil)
		}
		return true
	})
	if n == 0 {
		c.R.Undecided("R-ADDR", f.Name, "reattach returns the address it recorded", "no successful return found")
	} else if !bad {
		c.R.Hold("R-ADDR", p.Pos(f.Node()), f.Name, "reattach returns the address it recorded", "every successful return names Client.address or the value stored into it", true)
	}
}

// ruleCheckUsesHashGuarded: in SecureConfig.Check every use of the Hash field
// lies behind the edge on which it was found non-nil (the nil case is the
// ErrSecureConfigNoHash answer, not a panic).
func ruleCheckUsesHashGuarded(c *Ctx) {
	p := c.P
	f := p.Fn("SecureConfig.Check")
	if f == nil {
		c.R.Undecided("R-NILGUARD", "SecureConfig.Check", "anchor", "function not found")
		return
	}
	info := f.Pkg.TypesInfo
	g := p.Graph(f)
	hashF := p.FieldObj(modPath, "SecureConfig", "Hash")
	nonNil := func(e *Edge) bool {
		at, ok := edgeAtom(info, e)
		return ok && at.Kind == "nil" && at.Op == token.NEQ && SelField(info, at.X) == hashF && hashF != nil
	}
	seen := g.Reach([]*Node{g.Entry}, nil, nonNil)
	var feasible map[*Node]bool
	n, bad := 0, false
	for m := range seen {
		if m.Ast == nil {
			continue
		}
		uses := false
		walkNoLit(m.Ast, func(x ast.Node) bool {
			if se, ok := x.(*ast.SelectorExpr); ok && SelField(info, se) == hashF {
				// the nil test itself is not a use
				if be, isB := p.Parent(se).(*ast.BinaryExpr); isB && (be.Op == token.EQL || be.Op == token.NEQ) && (isNilIdent(info, be.X) || isNilIdent(info, be.Y)) {
					return true
				}
				uses = true
			}
			return true
		})
		if uses {
			// the outcome of the test may have been recorded in an error
			// variable that is tested afterwards (a validation helper)
			if feasible == nil {
				feasible = p.FeasibleReach(f, []*Node{g.Entry}, nil, nonNil)
			}
			if !feasible[m] {
				continue
			}
			bad = true
			c.R.Violate("R-NILGUARD", p.Pos(m.Ast), f.Name, "use of SecureConfig.Hash behind its nil test", "SecureConfig.Hash is used on a path on which it was not found non-nil: a configuration without a hash function panics the host instead of yielding ErrSecureConfigNoHash", nil)
		}
	}
	ast.Inspect(f.Body, func(x ast.Node) bool {
		if se, ok := x.(*ast.SelectorExpr); ok && SelField(info, se) == hashF {
			n++
		}
		return true
	})
	if n == 0 {
		c.R.Undecided("R-NILGUARD", f.Name, "use of SecureConfig.Hash behind its nil test", "the field is never used")
	} else if !bad {
		c.R.Hold("R-NILGUARD", p.Pos(f.Node()), f.Name, "use of SecureConfig.Hash behind its nil test", fmt.Sprintf("%d mentions, every use behind Hash != nil", n), true)
	}
}

// ruleDialAckDeadline: a net/rpc broker Dial is answered when the peer's
// Accept arrives, which may be up to the pending window (5 s) after the dial.
// If Dial bounds its wait for the acknowledgement with an I/O deadline, that
// deadline is at least the window: an absolute deadline set in MuxBroker.Dial
// from time.Now().Add(D) has a constant D of at least 5 s (the window of
// Accept and timeoutWait, which R-BOUND/window keeps equal).
func ruleDialAckDeadline(c *Ctx) {
	p := c.P
	f := p.Fn("MuxBroker.Dial")
	if f == nil {
		c.R.Undecided("R-BOUND/window", "MuxBroker.Dial", "anchor", "function not found")
		return
	}
	info := f.Pkg.TypesInfo
	n, bad := 0, false
	for _, call := range f.Calls() {
		se, ok := ast.Unparen(call.Fun).(*ast.SelectorExpr)
		if !ok || len(call.Args) != 1 || (se.Sel.Name != "SetDeadline" && se.Sel.Name != "SetReadDeadline") {
			continue
		}
		add, ok := ast.Unparen(p.Deref(f, call.Args[0])).(*ast.CallExpr)
		if !ok || len(add.Args) != 1 {
			continue // time.Time{}: clearing
		}
		if as, isSel := ast.Unparen(add.Fun).(*ast.SelectorExpr); !isSel || as.Sel.Name != "Add" {
			continue
		}
		n++
		d := durationConst(info, add.Args[0])
		construct := "ack deadline " + exprStr(add.Args[0])
		if d >= 5*int64(1e9) {
			c.R.Hold("R-BOUND/window", p.Pos(call), f.Name, construct, "a constant of at least the 5 s pending window", true)
		} else {
			bad = true
			c.R.Violate("R-BOUND/window", p.Pos(call), f.Name, construct, "Dial stops waiting for the peer's acknowledgement before the pending window (5 s) has passed: a dial that arrives first and is accepted within the window fails with an I/O timeout, while the Accept gets a connection nobody uses", nil)
		}
	}
	if n == 0 && !bad {
		c.R.Hold("R-BOUND/window", p.Pos(f.Node()), f.Name, "ack deadline", "Dial sets no I/O deadline of its own (the peer's window decides)", false)
	}
}

// ---------- R-BOUND/poll: the reattached pid is polled at a constant, short interval ----------

// rulePidPoll: pidWait notices the exit of a process that is not our child
// only at its next poll, and Kill waits for that (through clientWaitGroup). The
// poll interval is therefore a positive constant of at most five seconds:
// every timer/ticker/sleep duration in pidWait is a constant, and no
// Timer.Reset / Ticker.Reset re-arms it with a computed value.
func rulePidPoll(c *Ctx) {
	p := c.P
	f := p.Fn("cmdrunner.pidWait")
	if f == nil {
		c.R.Undecided("R-BOUND/poll", "cmdrunner.pidWait", "anchor", "function not found")
		return
	}
	info := f.Pkg.TypesInfo
	n, bad := 0, false
	for _, call := range f.Calls() {
		var d ast.Expr
		switch p.CalleeName(f, call) {
		case "time.NewTicker", "time.NewTimer", "time.After", "time.Tick", "time.Sleep":
			d = call.Args[0]
		case "time.Timer.Reset", "time.Ticker.Reset":
			d = call.Args[0]
		default:
			continue
		}
		n++
		k := durationConst(info, d)
		if (k <= 0 || k > 5*int64(1e9)) && !p.cappedDuration(f, d) {
			bad = true
			c.R.Violate("R-BOUND/poll", p.Pos(call), f.Name, "poll interval "+exprStr(d),
				"the interval at which a reattached plugin's pid is polled is not a positive constant of at most 5 s: the exit is noticed (and Kill returns) only at the next poll, however long the interval has grown", nil)
		}
	}
	if n == 0 {
		c.R.Undecided("R-BOUND/poll", f.Name, "poll interval", "no ticker, timer or sleep found in pidWait")
	} else if !bad {
		c.R.Hold("R-BOUND/poll", p.Pos(f.Node()), f.Name, "poll interval", fmt.Sprintf("%d timer/ticker durations, all positive constants of at most 5 s (or a local whose every value is such a constant or min(..., such a constant))", n), true)
	}
}

// cappedDuration: d is a local every definition of which is a positive
// constant of at most 5 s or the builtin min(...) with such a constant among its
// arguments (a capped back-off).
func (p *Prog) cappedDuration(f *Func, d ast.Expr) bool {
	info := f.Pkg.TypesInfo
	v, ok := identObj(info, ast.Unparen(d)).(*types.Var)
	if !ok || v.IsField() {
		return false
	}
	small := func(e ast.Expr) bool {
		k := durationConst(info, e)
		return k > 0 && k <= 5*int64(1e9)
	}
	n, good := 0, true
	ast.Inspect(f.Body, func(x ast.Node) bool {
		switch s := x.(type) {
		case *ast.AssignStmt:
			for i, l := range s.Lhs {
				if identObj(info, l) != types.Object(v) {
					continue
				}
				n++
				if len(s.Lhs) != len(s.Rhs) || (s.Tok != token.ASSIGN && s.Tok != token.DEFINE) {
					good = false
					continue
				}
				r := ast.Unparen(s.Rhs[i])
				if small(r) {
					continue
				}
				call, isCall := r.(*ast.CallExpr)
				if id, isID := callFunIdent(call); !isCall || !isID || id.Name != "min" || info.Uses[id] != types.Universe.Lookup("min") {
					good = false
					continue
				}
				capped := false
				for _, a := range call.Args {
					if small(a) {
						capped = true
					}
				}
				if !capped {
					good = false
				}
			}
		case *ast.IncDecStmt:
			if identObj(info, s.X) == types.Object(v) {
				good = false
			}
		case *ast.UnaryExpr:
			if s.Op == token.AND && identObj(info, s.X) == types.Object(v) {
				good = false
			}
		}
		return true
	})
	return n > 0 && good
}

func callFunIdent(call *ast.CallExpr) (*ast.Ident, bool) {
	if call == nil {
		return nil, false
	}
	id, ok := ast.Unparen(call.Fun).(*ast.Ident)
	return id, ok
}

// ---------- R-BOUND/keepalive: the yamux sessions keep their default keep-alive ----------

// ruleYamuxConfig: the only fields of a yamux.Config the module sets are the
// log sinks. In particular the keep-alive (on by default, 30 s + 10 s) stays on:
// it is what makes a blocked Control.Quit on a frozen net/rpc plugin return, so
// that Kill reaches the forced kill.
func ruleYamuxConfig(c *Ctx) {
	p := c.P
	allowed := map[string]bool{"Logger": true, "LogOutput": true}
	n, bad := 0, false
	for _, f := range p.Funcs {
		if strings.HasSuffix(p.Fset.Position(f.Body.Pos()).Filename, "testing.go") {
			continue
		}
		info := f.Pkg.TypesInfo
		isCfg := func(t types.Type) bool {
			if t == nil {
				return false
			}
			if pt, ok := t.Underlying().(*types.Pointer); ok {
				t = pt.Elem()
			}
			return strings.HasSuffix(t.String(), "yamux.Config")
		}
		ast.Inspect(f.Body, func(x ast.Node) bool {
			switch s := x.(type) {
			case *ast.AssignStmt:
				for _, l := range s.Lhs {
					if se, ok := ast.Unparen(l).(*ast.SelectorExpr); ok && isCfg(info.TypeOf(se.X)) {
						n++
						if !allowed[se.Sel.Name] {
							bad = true
							c.R.Violate("R-BOUND/keepalive", p.Pos(s), f.Name, "yamux.Config."+se.Sel.Name,
								"the module changes a yamux session parameter other than the log sinks: with keep-alive off (or its timing changed) a frozen net/rpc plugin keeps the shutdown request of Kill blocked and is never force-killed", nil)
						}
					}
				}
			case *ast.CompositeLit:
				if isCfg(info.TypeOf(s)) {
					for _, el := range s.Elts {
						if kv, ok := el.(*ast.KeyValueExpr); ok {
							if k, ok := kv.Key.(*ast.Ident); ok {
								n++
								if !allowed[k.Name] {
									bad = true
									c.R.Violate("R-BOUND/keepalive", p.Pos(kv), f.Name, "yamux.Config."+k.Name,
										"the module changes a yamux session parameter other than the log sinks: with keep-alive off (or its timing changed) a frozen net/rpc plugin keeps the shutdown request of Kill blocked and is never force-killed", nil)
								}
							}
						}
					}
				}
			}
			return true
		})
	}
	// package-level yamux.Config values
	for _, pkg := range p.Pkgs {
		for _, file := range pkg.Syntax {
			if strings.HasSuffix(p.Fset.Position(file.Pos()).Filename, "_test.go") || strings.HasSuffix(p.Fset.Position(file.Pos()).Filename, "testing.go") {
				continue
			}
			for _, d := range file.Decls {
				gd, ok := d.(*ast.GenDecl)
				if !ok || gd.Tok != token.VAR {
					continue
				}
				ast.Inspect(gd, func(x ast.Node) bool {
					cl, ok := x.(*ast.CompositeLit)
					if !ok {
						return true
					}
					if t := pkg.TypesInfo.TypeOf(cl); t != nil && strings.HasSuffix(t.String(), "yamux.Config") {
						for _, el := range cl.Elts {
							if kv, ok := el.(*ast.KeyValueExpr); ok {
								if k, ok := kv.Key.(*ast.Ident); ok && !allowed[k.Name] {
									n++
									bad = true
									c.R.Violate("R-BOUND/keepalive", p.Pos(kv), "(package level)", "yamux.Config."+k.Name,
										"the module changes a yamux session parameter other than the log sinks: with keep-alive off (or its timing changed) a frozen net/rpc plugin keeps the shutdown request of Kill blocked and is never force-killed", nil)
								}
							}
						}
					}
					return true
				})
			}
		}
	}
	if !bad {
		c.R.Hold("R-BOUND/keepalive", "-", "", "yamux session parameters", fmt.Sprintf("%d stores to yamux.Config fields, all to the log sinks", n), true)
	}
}

// ---------- R-FRESH/listener: every multiplexed Accept gets a listener of its own ----------

// ruleFreshMuxListener: the listener a muxer hands out for an id is built in
// that call (newBlockedClientListener / newBlockedServerListener / a literal)
// with the done channel it was given; it is never a listener found in the
// table, whose done channel belongs to an earlier - possibly already closed -
// Accept of the same id.
func ruleFreshMuxListener(c *Ctx) {
	p := c.P
	n := 0
	for _, name := range []string{"grpcmux.GRPCClientMuxer.Listener", "grpcmux.GRPCServerMuxer.Listener"} {
		f := p.Fn(name)
		if f == nil {
			c.R.Undecided("R-FRESH/listener", name, "anchor", "function not found")
			continue
		}
		info := f.Pkg.TypesInfo
		var doneP types.Object
		if f.Type.Params != nil {
			for _, fd := range f.Type.Params.List {
				for _, nm := range fd.Names {
					if t := info.TypeOf(nm); t != nil {
						if _, isChan := t.Underlying().(*types.Chan); isChan {
							doneP = info.Defs[nm]
						}
					}
				}
			}
		}
		walkNoLit(f.Body, func(x ast.Node) bool {
			rs, ok := x.(*ast.ReturnStmt)
			if !ok || len(rs.Results) != 2 || isNilIdent(info, rs.Results[0]) {
				return true
			}
			n++
			r := ast.Unparen(p.Deref(f, rs.Results[0]))
			if u, isU := r.(*ast.UnaryExpr); isU && u.Op == token.AND {
				r = ast.Unparen(u.X)
			}
			fresh, usesDone := false, false
			switch y := r.(type) {
			case *ast.CallExpr:
				if ce := p.FnOf(asFunc(p.Callee(f, y))); ce != nil && strings.HasPrefix(shortName(ce.Name), "grpcmux.newBlocked") || strings.Contains(p.CalleeName(f, y), "newBlocked") {
					fresh = true
				}
				for _, a := range y.Args {
					if doneP != nil && identObj(info, a) == doneP {
						usesDone = true
					}
				}
			case *ast.CompositeLit:
				fresh = true
				ast.Inspect(y, func(z ast.Node) bool {
					if id, ok := z.(*ast.Ident); ok && doneP != nil && info.Uses[id] == doneP {
						usesDone = true
					}
					return true
				})
			}
			// a listener from the table is as good as a new one when its done
			// channel was compared equal to the one this call was given
			if rv, isVar := identObj(info, ast.Unparen(rs.Results[0])).(*types.Var); isVar && !fresh && doneP != nil && !rv.IsField() {
				g := p.Graph(f)
				if rn := g.NodeOf(rs); rn != nil && g.OnlyViaEdge(rn, func(e *Edge) bool {
					at, ok := edgeAtom(info, e)
					if !ok || at.Kind != "cmp" || at.Op != token.EQL {
						return false
					}
					for _, pr := range [][2]ast.Expr{{at.X, at.Y}, {at.Y, at.X}} {
						se, isSel := ast.Unparen(pr[0]).(*ast.SelectorExpr)
						if isSel && identObj(info, se.X) == types.Object(rv) && identObj(info, pr[1]) == doneP {
							if _, isChan := info.TypeOf(se).Underlying().(*types.Chan); isChan {
								return true
							}
						}
					}
					return false
				}) {
					fresh, usesDone = true, true
				}
			}
			construct := "listener built for this Accept"
			if fresh && (usesDone || doneP == nil) {
				c.R.Hold("R-FRESH/listener", p.Pos(rs), f.Name, construct, "constructed in this call with the caller's done channel (or taken from the table only where its done channel equals the caller's)", true)
			} else {
				c.R.Violate("R-FRESH/listener", p.Pos(rs), f.Name, construct,
					"the muxer can return a listener that was not built in this call with the done channel it was given (one found in its table): its done channel is that of an earlier Accept of the id, so once that one was closed the new listener reports EOF at once and the knock for it is never answered", nil)
			}
			return true
		})
	}
	if n < 2 {
		c.R.Undecided("R-FRESH/listener", "", "instance-floor", fmt.Sprintf("only %d listener returns found in the two muxers, 2 expected", n))
	}
}

// ---------- R-GUARD/startlock: every return of Start has passed through the client lock ----------

// ruleStartHoldsLock: the accessors that read client state without the lock
// (Protocol, NegotiatedVersion, the dialers) are justified by "my own Start()
// call returned, and Start's unlock happens-before my read". That argument
// needs every return of Start to be made with Client.l held (a deferred unlock
// releases it afterwards): a lock-free fast path out of Start lets a caller
// read fields that another goroutine is still writing under the lock.
func ruleStartHoldsLock(c *Ctx) {
	p := c.P
	f := p.Fn("Client.Start")
	if f == nil {
		c.R.Undecided("R-GUARD/startlock", "Client.Start", "anchor", "function not found")
		return
	}
	g := p.Graph(f)
	// the nodes that acquire Client.l, in either mode: an acquisition is
	// ordered after the release by the goroutine that wrote the state, which is
	// what the argument needs (the lock need not still be held at the return)
	acquires := func(m *Node) bool {
		if m.Ast == nil {
			return false
		}
		if _, isDefer := m.Ast.(*ast.DeferStmt); isDefer {
			return false
		}
		for _, call := range callsIn(m.Ast) {
			v, op := p.lockOp(f, call)
			if v == nil || op != "lock" {
				continue
			}
			if base := p.rshadowOf[v]; base != nil {
				v = base
			}
			if p.lockName(v) == "Client.l" {
				return true
			}
		}
		return false
	}
	seen := g.Reach([]*Node{g.Entry}, acquires, nil)
	n, bad := 0, false
	for _, m := range g.Nodes {
		rs, ok := m.Ast.(*ast.ReturnStmt)
		if !ok {
			continue
		}
		n++
		if _, lockFree := seen[m]; lockFree {
			bad = true
			c.R.Violate("R-GUARD/startlock", p.Pos(rs), f.Name, "return with the client lock held",
				"Start can return without having taken Client.l: callers that go on to read the client's state on the strength of their own Start() call (Protocol, NegotiatedVersion, the dialers) are no longer ordered after the goroutine that is still writing it", p.PathTo(seen, m))
		}
	}
	if n == 0 {
		c.R.Undecided("R-GUARD/startlock", f.Name, "returns", "no return statement found")
	} else if !bad {
		c.R.Hold("R-GUARD/startlock", p.Pos(f.Node()), f.Name, "return with the client lock held", fmt.Sprintf("all %d returns lie behind an acquisition of Client.l (Lock or RLock) on every path", n), true)
	}
}

// ---------- R-NIL/map: a map field that is stored into is never set to nil ----------

// ruleMapFieldNotNil: for every struct field of map type into which some
// function of the module stores elements (x.f[k] = v), no function assigns
// nil to the field ("hand the map over and forget it"): a store that comes
// later - an Accept finishing while Close runs - panics with "assignment to
// entry in nil map", here with the owner's mutex held.
func ruleMapFieldNotNil(c *Ctx) {
	p := c.P
	stored := map[*types.Var]bool{}
	for _, f := range p.Funcs {
		info := f.Pkg.TypesInfo
		ast.Inspect(f.Body, func(x ast.Node) bool {
			as, ok := x.(*ast.AssignStmt)
			if !ok {
				return true
			}
			for _, l := range as.Lhs {
				if ix, ok := ast.Unparen(l).(*ast.IndexExpr); ok {
					if fv := SelField(info, ix.X); fv != nil {
						if _, isMap := fv.Type().Underlying().(*types.Map); isMap && fv.Pkg() != nil && strings.HasPrefix(fv.Pkg().Path(), modPath) {
							stored[fv] = true
						}
					}
				}
			}
			return true
		})
	}
	n, bad := 0, false
	for _, f := range p.Funcs {
		if strings.HasSuffix(p.Fset.Position(f.Body.Pos()).Filename, "testing.go") {
			continue
		}
		info := f.Pkg.TypesInfo
		ast.Inspect(f.Body, func(x ast.Node) bool {
			as, ok := x.(*ast.AssignStmt)
			if !ok || len(as.Lhs) != len(as.Rhs) {
				return true
			}
			for i, l := range as.Lhs {
				fv := SelField(info, l)
				if fv == nil || !stored[fv] {
					continue
				}
				n++
				if isNilIdent(info, as.Rhs[i]) && !p.mapStoresRemake(fv) {
					bad = true
					c.R.Violate("R-NIL/map", p.Pos(as), f.Name, "store nil to "+p.FieldName(fv),
						"the map is set to nil although other functions store elements into it: a store that runs afterwards (an operation still in flight while this one cleans up) panics with \"assignment to entry in nil map\"", nil)
				}
			}
			return true
		})
	}
	if !bad {
		c.R.Hold("R-NIL/map", "-", "", "map fields that are stored into are never set to nil", fmt.Sprintf("%d map fields with element stores, %d whole-field assignments, none of nil", len(stored), n), true)
	}
}

// mapStoresRemake: every element store into map field fv, anywhere in the
// module, is made with a mutex held under which the field was tested against
// nil and re-made on the nil edge: from the function's entry the store is
// reachable only through `fv != nil` or through an assignment of make(...) to
// the field, and the lock held at the store is not released between that point
// and the store. A nil field is then just "empty".
func (p *Prog) mapStoresRemake(fv *types.Var) bool {
	n := 0
	for _, f := range p.Funcs {
		info := f.Pkg.TypesInfo
		var stores []ast.Node
		walkNoLit(f.Body, func(x ast.Node) bool {
			if as, ok := x.(*ast.AssignStmt); ok {
				for _, l := range as.Lhs {
					if ix, isIx := ast.Unparen(l).(*ast.IndexExpr); isIx && SelField(info, ix.X) == fv {
						stores = append(stores, as)
					}
				}
			}
			return true
		})
		if len(stores) == 0 {
			continue
		}
		g := p.Graph(f)
		isMake := func(m *Node) bool {
			as, ok := m.Ast.(*ast.AssignStmt)
			if !ok || len(as.Lhs) != len(as.Rhs) {
				return false
			}
			for i, l := range as.Lhs {
				if SelField(info, l) != fv {
					continue
				}
				if call, isCall := ast.Unparen(as.Rhs[i]).(*ast.CallExpr); isCall {
					if id, isID := callFunIdent(call); isID && id.Name == "make" {
						return true
					}
				}
				if _, isLit := ast.Unparen(as.Rhs[i]).(*ast.CompositeLit); isLit {
					return true
				}
			}
			return false
		}
		nonNil := func(e *Edge) bool {
			at, ok := edgeAtom(info, e)
			return ok && at.Kind == "nil" && at.Op == token.NEQ && SelField(info, at.X) == fv
		}
		unguarded := g.Reach([]*Node{g.Entry}, isMake, nonNil)
		for _, st := range stores {
			sn := g.NodeOf(st)
			if sn == nil {
				return false
			}
			n++
			if _, bad := unguarded[sn]; bad {
				return false
			}
			held := p.MustHeldAt(f, sn)
			if len(held) == 0 {
				return false
			}
			// no release of a held lock between the test/make and the store
			var froms []*Node
			for _, m := range g.Nodes {
				if m.Ast != nil && isMake(m) {
					froms = append(froms, m)
				}
				for _, e := range m.Succs {
					if nonNil(e) {
						froms = append(froms, e.To)
					}
				}
			}
			between := g.Reach(froms, func(x *Node) bool { return x == sn }, nil)
			for m := range between {
				if m.Ast == nil || m == sn {
					continue
				}
				if _, isDefer := m.Ast.(*ast.DeferStmt); isDefer {
					continue
				}
				for _, call := range callsIn(m.Ast) {
					if v, op := p.lockOp(f, call); v != nil && op == "unlock" && held[v] {
						if _, reaches := g.Reach([]*Node{m}, nil, nil)[sn]; reaches {
							return false
						}
					}
				}
			}
		}
	}
	return n > 0
}

// ---------- R-CTOR/session: the client muxer is connected when it is handed out ----------

// ruleMuxerConnected: NewGRPCClientMuxer returns a muxer whose session field
// holds the result of yamux.Client - the connection is made (and its failure
// reported) by the constructor. Listener() hands m.session to every blocked
// listener without a nil check, and Client() relies on the constructor's error
// to report a plugin that is already gone.
func ruleMuxerConnected(c *Ctx) {
	p := c.P
	f := p.Fn("grpcmux.NewGRPCClientMuxer")
	if f == nil {
		c.R.Undecided("R-CTOR/session", "grpcmux.NewGRPCClientMuxer", "anchor", "function not found")
		return
	}
	info := f.Pkg.TypesInfo
	sessF := p.FieldObj(modPath+"/internal/grpcmux", "GRPCClientMuxer", "session")
	var sessV *types.Var
	for _, call := range f.Calls() {
		if p.CalleeName(f, call) == "github.com/hashicorp/yamux.Client" {
			sessV = assignedVar(p, info, call)
		}
	}
	ok := false
	ast.Inspect(f.Body, func(x ast.Node) bool {
		kv, isKV := x.(*ast.KeyValueExpr)
		if !isKV {
			return true
		}
		if k, isID := kv.Key.(*ast.Ident); isID && sessF != nil && info.Uses[k] == types.Object(sessF) {
			if sessV != nil && identObj(info, kv.Value) == types.Object(sessV) {
				ok = true
			}
		}
		return true
	})
	if ok {
		c.R.Hold("R-CTOR/session", p.Pos(f.Node()), f.Name, "session initialised by the constructor", "the returned muxer's session is the result of yamux.Client", true)
	} else {
		c.R.Violate("R-CTOR/session", p.Pos(f.Node()), f.Name, "session initialised by the constructor",
			"the client muxer is handed out without an established yamux session: Listener() passes the (nil) session to the blocked listeners, whose Addr()/Accept() dereference it, and a plugin that is already gone is no longer reported by Client()", nil)
	}
}

// hostEnvOnlyTested: in hostEnv every feasible path from the entry to an
// append crosses the edge on which the test for the variable name want failed
// (strings.HasPrefix(kv, want+"=") false, or name != want): a second way round
// the tests - e.g. a user-supplied filter consulted instead of them - lets the
// host's own value through. Returns (true, nil) when that holds, (false, node)
// with an append that can be reached untested, (false, nil) when hostEnv has no
// append at all.
func (p *Prog) hostEnvOnlyTested(want string) (bool, *Node) {
	f := p.Fn("hostEnv")
	if f == nil {
		return false, nil
	}
	info := f.Pkg.TypesInfo
	g := p.Graph(f)
	var appendN []*Node
	for _, m := range g.Nodes {
		if m.Ast == nil {
			continue
		}
		for _, call := range callsIn(m.Ast) {
			if p.CalleeName(f, call) == "builtin.append" {
				appendN = append(appendN, m)
			}
		}
	}
	if len(appendN) == 0 {
		return false, nil
	}
	notWant := func(e *Edge) bool {
		at, ok := edgeAtom(info, e)
		if !ok {
			return false
		}
		switch at.Kind {
		case "call":
			call, isC := at.X.(*ast.CallExpr)
			if !isC || at.True || p.CalleeName(f, call) != "strings.HasPrefix" || len(call.Args) != 2 {
				return false
			}
			pre, isK := constString(info, call.Args[1])
			return isK && pre == want+"="
		case "cmp":
			if at.Op != token.NEQ {
				return false
			}
			for _, side := range []ast.Expr{at.X, at.Y} {
				if sv, isK := constString(info, side); isK && sv == want {
					return true
				}
			}
		}
		return false
	}
	seen := p.FeasibleReach(f, []*Node{g.Entry}, nil, notWant)
	for _, an := range appendN {
		if seen[an] {
			return false, an
		}
	}
	return true, nil
}
