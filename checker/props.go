package main

func init() {
	register(&propDef{ID: "T00", Rules: []func(*Ctx){ruleIdx, ruleNilGuard}, Explanation: "test", NotDecided: "n/a"})
}
