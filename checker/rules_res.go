package main

import (
	"fmt"
	"go/ast"
	"go/token"
	"go/types"
	"strings"
)

// R-RES — an acquired closable resource is handed off or closed on every path.
//
// For each listed function, every local variable whose type has a Close()
// method and that is bound from a call result or a channel receive is an
// instance. From its definition, every path to the function's exit (or back to
// the definition, in a loop) must pass a node that consumes it: Close (direct
// or deferred), return, channel send, hand-off as an argument to a callee that
// takes ownership, capture by a closure, store into a literal/field/variable.
// Edges on which the paired error is non-nil are cut (nothing was acquired).

type resInstance struct {
	Func string
	Type string // "" = every closable type; otherwise substring of the type string
	Why  string
}

var resInstances = []resInstance{
	{"MuxBroker.Run", "", "an inbound stream is parked for its id or closed; a dropped stream leaves its dialer waiting for an ack forever"},
	{"MuxBroker.Dial", "", "a stream whose negotiation failed is closed"},
	{"MuxBroker.Accept", "", "an accepted connection whose ack failed is closed"},
	{"NewRPCClient", "", "the yamux session is closed when setting up the control and stdio streams fails"},
	{"newRPCClient", "", "the connection / client is closed when the RPC client cannot be completed"},
	{"RPCServer.ServeConn", "", "the yamux session is closed when the control or stdio streams cannot be accepted"},
	{"SecureConfig.Check", "", "the checksummed file is closed"},
	{"Serve", "net.Listener", "the plugin's listener is closed (and its socket file removed) on every return after it was created"},
	{"GRPCBroker.AcceptAndServe", "", "the brokered listener is closed when serving ends"},
	{"GRPCBroker.Accept", "", "a brokered listener that cannot be announced to the peer is closed (its socket file removed) before the error is returned"},
	{"MuxBroker.AcceptAndServe", "", "the accepted connection is handed to the RPC server"},
}

// nonOwning callees use a resource without taking ownership of it.
var nonOwning = map[string]bool{
	"encoding/binary.Read":  true,
	"encoding/binary.Write": true,
	"io.Copy":               true,
	"io.ReadFull":           true,
	"fmt.Sprintf":           true,
	"fmt.Errorf":            true,
	"log.Printf":            true,
}

func hasCloseMethod(t types.Type) bool {
	if t == nil {
		return false
	}
	ms := types.NewMethodSet(t)
	for i := 0; i < ms.Len(); i++ {
		if ms.At(i).Obj().Name() == "Close" {
			if sig, ok := ms.At(i).Type().(*types.Signature); ok && sig.Params().Len() == 0 {
				return true
			}
		}
	}
	return false
}

// resConsumes reports whether CFG node n consumes resource variable v.
func (p *Prog) resConsumes(f *Func, n *Node, v *types.Var) (bool, string) {
	info := f.Pkg.TypesInfo
	if n.Ast == nil {
		return false, ""
	}
	consumed := false
	how := ""
	isV := func(e ast.Expr) bool { return identObj(info, e) == v }
	ast.Inspect(n.Ast, func(x ast.Node) bool {
		if consumed || x == nil {
			return false
		}
		switch s := x.(type) {
		case *ast.FuncLit:
			if usesObj(info, s.Body, v, true) {
				consumed, how = true, "captured by a closure"
			}
			return false
		case *ast.ReturnStmt:
			for _, r := range s.Results {
				if isV(r) {
					consumed, how = true, "returned"
				}
			}
		case *ast.SendStmt:
			if isV(s.Value) {
				consumed, how = true, "sent on a channel"
			}
		case *ast.CallExpr:
			if se, ok := ast.Unparen(s.Fun).(*ast.SelectorExpr); ok && isV(se.X) {
				if se.Sel.Name == "Close" {
					consumed, how = true, "closed"
				}
				// other method calls on the resource do not consume it; but look at args
			}
			full := p.CalleeName(f, s)
			if tv, ok := info.Types[s.Fun]; ok && tv.IsType() {
				return true
			}
			for _, a := range s.Args {
				if isV(a) && !nonOwning[full] && !strings.HasPrefix(full, "builtin.") {
					consumed, how = true, "handed to "+shortName(full)
					if full == "" {
						how = "handed to " + exprStr(s.Fun)
					}
				}
			}
		case *ast.CompositeLit:
			for _, el := range s.Elts {
				e := el
				if kv, ok := el.(*ast.KeyValueExpr); ok {
					e = kv.Value
				}
				if isV(e) {
					consumed, how = true, "stored in a composite literal"
				}
			}
		case *ast.AssignStmt:
			for i, r := range s.Rhs {
				if isV(r) && i < len(s.Lhs) && !isV(s.Lhs[i]) {
					if id, ok := s.Lhs[i].(*ast.Ident); ok && id.Name == "_" {
						continue
					}
					consumed, how = true, "stored in "+exprStr(s.Lhs[i])
				}
			}
		}
		return true
	})
	return consumed, how
}

func ruleRes(c *Ctx) {
	p := c.P
	total := 0
	for _, ri := range resInstances {
		f := p.Fn(ri.Func)
		if f == nil {
			c.R.Undecided("R-RES", ri.Func, "anchor", "function not found")
			continue
		}
		total += p.resCheckFunc(c, f, ri.Type, ri.Why)
	}
	if total < 12 {
		c.R.Undecided("R-RES", "", "instance-floor", fmt.Sprintf("only %d resource definitions found, at least 12 were confirmed by hand", total))
	}
}

func (p *Prog) resCheckFunc(c *Ctx, f *Func, typeFilter, why string) int {
	info := f.Pkg.TypesInfo
	g := p.Graph(f)
	count := 0
	// definitions: node -> (resource var, paired error var)
	type def struct {
		n   *Node
		v   *types.Var
		e   *types.Var
		rhs ast.Expr
	}
	var defs []def
	for _, n := range g.Nodes {
		as, ok := n.Ast.(*ast.AssignStmt)
		if !ok || (as.Tok != token.ASSIGN && as.Tok != token.DEFINE) {
			continue
		}
		var errv *types.Var
		for _, l := range as.Lhs {
			if v, ok := identObj(info, l).(*types.Var); ok && isErrorType(v.Type()) {
				errv = v
			}
		}
		for i, l := range as.Lhs {
			v, ok := identObj(info, l).(*types.Var)
			if !ok || v.IsField() || v.Name() == "_" || !hasCloseMethod(v.Type()) {
				continue
			}
			if typeFilter != "" && !strings.Contains(v.Type().String(), typeFilter) {
				continue
			}
			var rhs ast.Expr
			if len(as.Rhs) == len(as.Lhs) {
				rhs = as.Rhs[i]
			} else {
				rhs = as.Rhs[0]
			}
			rhs = ast.Unparen(rhs)
			switch r := rhs.(type) {
			case *ast.CallExpr:
				// sub-resource of a tracked local (mux.Open()): owned by its parent
				if se, ok := ast.Unparen(r.Fun).(*ast.SelectorExpr); ok {
					if pv, ok := identObj(info, se.X).(*types.Var); ok && !pv.IsField() && hasCloseMethod(pv.Type()) && pv != v && !isParamOf(info, f, pv) {
						continue
					}
				}
				if tv, ok := info.Types[r.Fun]; ok && tv.IsType() {
					continue
				}
			case *ast.UnaryExpr:
				if r.Op != token.ARROW {
					continue
				}
			default:
				continue
			}
			defs = append(defs, def{n, v, errv, rhs})
		}
	}
	for _, d := range defs {
		count++
		construct := d.v.Name() + " = " + trimExpr(d.rhs)
		// covered by a deferred closing closure registered earlier?
		covered := false
		for _, m := range g.Nodes {
			ds, ok := m.Ast.(*ast.DeferStmt)
			if !ok {
				continue
			}
			if fl, ok := ast.Unparen(ds.Call.Fun).(*ast.FuncLit); ok && usesObj(info, fl.Body, d.v, true) && g.Dominates(m, d.n) {
				covered = true
			}
		}
		if covered {
			c.R.Hold("R-RES", p.Pos(d.n.Ast), f.Name, construct, "a deferred closure that closes the variable was registered before this definition", true)
			continue
		}
		// a deferred closure that closes the variable only `if X != nil` covers
		// exactly the exits on which X is set: an error return after it hands
		// back X itself, or lies behind X != nil, or X is a named result
		condBad := false
		for m := range g.ReachAfter(d.n, nil, nil) {
			ds, ok := m.Ast.(*ast.DeferStmt)
			if !ok {
				continue
			}
			fl, ok := ast.Unparen(ds.Call.Fun).(*ast.FuncLit)
			if !ok {
				continue
			}
			var x *types.Var
			ast.Inspect(fl.Body, func(y ast.Node) bool {
				call, ok := y.(*ast.CallExpr)
				if !ok {
					return true
				}
				se, ok := ast.Unparen(call.Fun).(*ast.SelectorExpr)
				if !ok || se.Sel.Name != "Close" || identObj(info, se.X) != d.v {
					return true
				}
				for cur := p.Parent(call); cur != nil && cur != ast.Node(fl); cur = p.Parent(cur) {
					if is, ok := cur.(*ast.IfStmt); ok {
						if be, ok := ast.Unparen(is.Cond).(*ast.BinaryExpr); ok && be.Op == token.NEQ && isNilIdent(info, be.Y) {
							if xv, ok := identObj(info, be.X).(*types.Var); ok && isErrorType(xv.Type()) {
								x = xv
							}
						}
					}
				}
				return true
			})
			if x == nil || isResultOf(info, f, x) {
				continue
			}
			for r := range g.ReachAfter(m, nil, nil) {
				rs, ok := r.Ast.(*ast.ReturnStmt)
				if !ok || len(rs.Results) == 0 {
					continue
				}
				last := rs.Results[len(rs.Results)-1]
				if !isErrorType(info.TypeOf(last)) || isNilIdent(info, last) || identObj(info, last) == types.Object(x) {
					continue
				}
				behind := g.OnlyViaEdge(r, func(e *Edge) bool {
					at, ok := edgeAtom(info, e)
					return ok && at.Kind == "nil" && at.Op == token.NEQ && identObj(info, at.X) == types.Object(x)
				})
				if !behind {
					condBad = true
					c.R.Violate("R-RES", p.Pos(rs), f.Name, construct,
						"the deferred cleanup closes "+d.v.Name()+" only if "+x.Name()+" != nil, but this return reports its failure through "+exprStr(last)+" (another variable of the same name, or a fresh value) while "+x.Name()+" may be nil: "+d.v.Name()+" is neither closed nor handed off on this exit: "+why, nil)
				}
			}
		}
		if condBad {
			continue
		}
		// region in which the paired error variable still refers to this acquisition
		fresh := map[*Node]bool{}
		if d.e != nil {
			reach := g.ReachAfter(d.n, func(m *Node) bool {
				if m.Ast == nil {
					return false
				}
				defsM, _ := nodeDefsUses(info, m.Ast)
				_, redefined := defsM[d.e]
				return redefined
			}, nil)
			for m := range reach {
				fresh[m] = true
			}
			fresh[d.n] = true
		}
		cut := func(e *Edge) bool {
			if d.e == nil || !fresh[e.From] {
				return false
			}
			at, ok := edgeAtom(info, e)
			if !ok || at.Kind != "nil" {
				return false
			}
			if identObj(info, at.X) != d.e {
				return false
			}
			return at.Op == token.NEQ // err != nil holds: nothing acquired
		}
		avoid := func(m *Node) bool {
			ok, _ := p.resConsumes(f, m, d.v)
			return ok
		}
		seen := g.ReachAfter(d.n, avoid, cut)
		var leakAt *Node
		if _, bad := seen[g.Exit]; bad {
			leakAt = g.Exit
		} else if _, again := seen[d.n]; again {
			leakAt = d.n
		}
		if leakAt != nil {
			// confirm with feasible reachability (error variables that only
			// record an earlier failure, as after helper inlining)
			var starts []*Node
			for _, e := range d.n.Succs {
				if !cut(e) && !avoid(e.To) {
					starts = append(starts, e.To)
				}
			}
			fr := p.FeasibleReach(f, starts, avoid, cut)
			if !fr[leakAt] {
				leakAt = nil
			}
		}
		if leakAt != nil {
			where := "the function returns"
			if leakAt == d.n {
				where = "the next loop iteration overwrites it"
			}
			c.R.Violate("R-RES", p.Pos(d.n.Ast), f.Name, construct,
				"there is a path on which "+d.v.Name()+" is neither closed nor handed off before "+where+": "+why, p.PathTo(seen, leakAt))
		} else {
			c.R.Hold("R-RES", p.Pos(d.n.Ast), f.Name, construct, "closed, returned or handed off on every path", true)
		}
	}
	return count
}

// isResultOf: v is a named result of f.
func isResultOf(info *types.Info, f *Func, v *types.Var) bool {
	if f.Type.Results == nil {
		return false
	}
	for _, fd := range f.Type.Results.List {
		for _, nm := range fd.Names {
			if info.Defs[nm] == types.Object(v) {
				return true
			}
		}
	}
	return false
}

func isParamOf(info *types.Info, f *Func, v *types.Var) bool {
	check := func(fl *ast.FieldList) bool {
		if fl == nil {
			return false
		}
		for _, fd := range fl.List {
			for _, nm := range fd.Names {
				if info.Defs[nm] == v {
					return true
				}
			}
		}
		return false
	}
	if f.Decl != nil && check(f.Decl.Recv) {
		return true
	}
	return check(f.Type.Params)
}
