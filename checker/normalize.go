package main

import (
	"bytes"
	"fmt"
	"go/ast"
	"go/format"
	"go/parser"
	"go/token"
	"go/types"
	"os"
	"sort"

	"golang.org/x/tools/go/ast/astutil"
)

// Source normalisation (pre-pass, same overlay mechanism as helper inlining).
//
//	for _, v := range []T{e1, ..., ek} { body }
//
// over a composite literal of at most 8 pure elements (identifiers, field
// selections, constants), whose body neither assigns v, takes its address,
// captures it in a function literal nor uses break/continue/labels, is
// unrolled into k blocks { body[v := ei] }. The per-element bodies then carry
// the concrete static type of each element, so that rules keyed on callees
// (c.control.Close() rather than closer.Close() through io.Closer) see them.
// If the rewritten program does not type-check the original is analysed.
func (p *Prog) normalizeOverlay() (map[string][]byte, []string) {
	type job struct {
		rs   *ast.RangeStmt
		f    *Func
		uses []int // file offsets of identifiers that denote the value variable
	}
	byFile := map[string][]job{}
	litVar := map[*ast.RangeStmt]*types.Var{}
	litOf := map[*ast.RangeStmt]*ast.CompositeLit{}
	pkgLit := map[*ast.RangeStmt]bool{}
	for _, f := range p.Funcs {
		if f.Body == nil {
			continue
		}
		fname := p.Fset.Position(f.Body.Pos()).Filename
		if !inScopeFile(fname) {
			continue
		}
		info := f.Pkg.TypesInfo
		walkNoLit(f.Body, func(n ast.Node) bool {
			rs, ok := n.(*ast.RangeStmt)
			if !ok || rs.Tok != token.DEFINE || rs.Value == nil {
				return true
			}
			if k, ok := rs.Key.(*ast.Ident); !ok || k.Name != "_" {
				return true
			}
			lit, ok := ast.Unparen(rs.X).(*ast.CompositeLit)
			if !ok {
				// a local that is bound once to such a literal and only ranged over
				if lv, isV := identObj(info, ast.Unparen(rs.X)).(*types.Var); isV && !lv.IsField() {
					if d := p.singleDef(f, lv); d != nil {
						if cl, isCl := ast.Unparen(d).(*ast.CompositeLit); isCl {
							uses := 0
							ast.Inspect(f.Body, func(y ast.Node) bool {
								if id, ok := y.(*ast.Ident); ok && info.Uses[id] == lv {
									uses++
								}
								return true
							})
							if uses == 1 {
								lit, ok = cl, true
								litVar[rs] = lv
							}
						}
					}
				}
			}
			if !ok {
				// a package-level table that is initialised with such a literal and
				// only ever read
				if pv, isV := identObj(info, ast.Unparen(rs.X)).(*types.Var); isV && !pv.IsField() && pv.Pkg() != nil && pv.Parent() == pv.Pkg().Scope() {
					if cl := p.pkgVarLiteral(f, pv); cl != nil && p.pkgVarReadOnly(pv) {
						lit, ok = cl, true
						pkgLit[rs] = true
					}
				}
			}
			if !ok || len(lit.Elts) == 0 || len(lit.Elts) > 8 {
				return true
			}
			if t := info.TypeOf(lit); t == nil {
				return true
			} else if _, isSlice := t.Underlying().(*types.Slice); !isSlice {
				if _, isArr := t.Underlying().(*types.Array); !isArr {
					return true
				}
			}
			for _, e := range lit.Elts {
				if !pureOperand(info, e) {
					return true
				}
			}
			vid, ok := rs.Value.(*ast.Ident)
			if !ok || vid.Name == "_" {
				return true
			}
			v, _ := info.Defs[vid].(*types.Var)
			if v == nil {
				return true
			}
			okBody := true
			var uses []int
			ast.Inspect(rs.Body, func(x ast.Node) bool {
				switch y := x.(type) {
				case *ast.FuncLit:
					ast.Inspect(y, func(z ast.Node) bool {
						if id, ok := z.(*ast.Ident); ok && info.Uses[id] == v {
							okBody = false
						}
						return true
					})
					return false
				case *ast.BranchStmt:
					okBody = false
				case *ast.LabeledStmt:
					okBody = false
				case *ast.AssignStmt:
					for _, l := range y.Lhs {
						if identObj(info, l) == v {
							okBody = false
						}
					}
				case *ast.IncDecStmt:
					if identObj(info, y.X) == v {
						okBody = false
					}
				case *ast.UnaryExpr:
					if y.Op == token.AND && identObj(info, y.X) == v {
						okBody = false
					}
				case *ast.Ident:
					if info.Uses[y] == v {
						uses = append(uses, p.Fset.Position(y.Pos()).Offset)
					}
				}
				return true
			})
			if !okBody {
				return true
			}
			litOf[rs] = lit
			byFile[fname] = append(byFile[fname], job{rs, f, uses})
			return true
		})
	}
	if len(byFile) == 0 {
		return nil, nil
	}
	overlay := map[string][]byte{}
	var notes []string
	for fn, js := range byFile {
		src := p.Overlay[fn]
		if src == nil {
			var err error
			if src, err = os.ReadFile(fn); err != nil {
				continue
			}
		}
		fset := token.NewFileSet()
		file, err := parser.ParseFile(fset, fn, src, parser.ParseComments)
		if err != nil {
			continue
		}
		// innermost/later loops first
		sort.Slice(js, func(a, b int) bool { return js[a].rs.Pos() > js[b].rs.Pos() })
		changed := false
		for _, j := range js {
			off := p.Fset.Position(j.rs.Pos()).Offset
			useAt := map[int]bool{}
			for _, u := range j.uses {
				useAt[u] = true
			}
			done := false
			astutil.Apply(file, func(c *astutil.Cursor) bool {
				if done {
					return false
				}
				rs, ok := c.Node().(*ast.RangeStmt)
				if !ok || fset.Position(rs.Pos()).Offset != off || c.Index() < 0 {
					return true
				}
				lit, isLit := ast.Unparen(rs.X).(*ast.CompositeLit)
				if !isLit && pkgLit[j.rs] {
					// elements of a package-level table (possibly declared in another
					// file): position-free copies of its pure operands
					fresh := &ast.CompositeLit{}
					for _, e := range litOf[j.rs].Elts {
						fe := freshPure(e)
						if fe == nil {
							return false
						}
						fresh.Elts = append(fresh.Elts, fe)
					}
					lit, isLit = fresh, true
				}
				if !isLit {
					// the literal bound to the ranged local: locate it by offset
					want := p.Fset.Position(litOf[j.rs].Pos()).Offset
					ast.Inspect(file, func(y ast.Node) bool {
						if cl, ok := y.(*ast.CompositeLit); ok && fset.Position(cl.Pos()).Offset == want {
							lit = cl
						}
						return true
					})
					if lit == nil {
						return false
					}
				}
				var blocks []ast.Stmt
				for _, e := range lit.Elts {
					body := cloneBlockSubst(fset, rs.Body, useAt, e)
					if body == nil {
						return false
					}
					blocks = append(blocks, body)
				}
				for _, b := range blocks {
					c.InsertBefore(b)
				}
				c.Delete()
				done = true
				return false
			}, nil)
			if done && litVar[j.rs] != nil {
				// the local that held the literal is no longer used
				want := p.Fset.Position(litOf[j.rs].Pos()).Offset
				ast.Inspect(file, func(y ast.Node) bool {
					switch st := y.(type) {
					case *ast.AssignStmt:
						if len(st.Rhs) == 1 && len(st.Lhs) == 1 {
							if cl, ok := ast.Unparen(st.Rhs[0]).(*ast.CompositeLit); ok && fset.Position(cl.Pos()).Offset == want {
								st.Lhs[0] = ast.NewIdent("_")
								st.Tok = token.ASSIGN
							}
						}
					case *ast.ValueSpec:
						if len(st.Values) == 1 && len(st.Names) == 1 {
							if cl, ok := ast.Unparen(st.Values[0]).(*ast.CompositeLit); ok && fset.Position(cl.Pos()).Offset == want {
								st.Names[0] = ast.NewIdent("_")
							}
						}
					}
					return true
				})
			}
			if done {
				changed = true
				notes = append(notes, fmt.Sprintf("unrolled range over a %d-element literal in %s at %s", len(litOf[j.rs].Elts), j.f.Name, p.Pos(j.rs)))
			}
		}
		if !changed {
			continue
		}
		var buf bytes.Buffer
		if err := format.Node(&buf, fset, file); err != nil {
			continue
		}
		out := buf.Bytes()
		// the literal's element type may have been the only use of an import
		fs2 := token.NewFileSet()
		if f2, err := parser.ParseFile(fs2, fn, out, parser.ParseComments); err == nil {
			p.pruneImports(fs2, f2)
			var b2 bytes.Buffer
			if format.Node(&b2, fs2, f2) == nil {
				out = b2.Bytes()
			}
		}
		overlay[fn] = out
	}
	return overlay, notes
}

// pureOperand: identifier, field selection chain, or constant.
func pureOperand(info *types.Info, e ast.Expr) bool {
	e = ast.Unparen(e)
	if tv, ok := info.Types[e]; ok && tv.Value != nil {
		return true
	}
	switch x := e.(type) {
	case *ast.Ident:
		return true
	case *ast.BasicLit:
		return true
	case *ast.SelectorExpr:
		if _, isCall := x.X.(*ast.CallExpr); isCall {
			return false
		}
		return pureOperand(info, x.X)
	case *ast.KeyValueExpr:
		return false
	}
	return false
}

// cloneBlockSubst deep-copies blk, replacing the identifiers at the given
// file offsets by a copy of repl.
func cloneBlockSubst(fset *token.FileSet, blk *ast.BlockStmt, useAt map[int]bool, repl ast.Expr) *ast.BlockStmt {
	im := map[*ast.Ident]*ast.Ident{}
	cp, _ := deepCopy(blk, im).(*ast.BlockStmt)
	if cp == nil {
		return nil
	}
	astutil.Apply(cp, func(c *astutil.Cursor) bool {
		if id, ok := c.Node().(*ast.Ident); ok {
			orig := im[id]
			if orig == nil || !orig.Pos().IsValid() || !useAt[fset.Position(orig.Pos()).Offset] {
				return true
			}
			if _, isSel := c.Parent().(*ast.SelectorExpr); isSel && c.Name() == "Sel" {
				return true
			}
			c.Replace(&ast.ParenExpr{X: deepCopy(repl, map[*ast.Ident]*ast.Ident{}).(ast.Expr)})
			return false
		}
		return true
	}, nil)
	return cp
}

// freshPure returns a position-free copy of a pure operand (identifier,
// selector chain, basic literal), or nil.
func freshPure(e ast.Expr) ast.Expr {
	switch x := ast.Unparen(e).(type) {
	case *ast.Ident:
		return ast.NewIdent(x.Name)
	case *ast.BasicLit:
		return &ast.BasicLit{Kind: x.Kind, Value: x.Value}
	case *ast.SelectorExpr:
		if in := freshPure(x.X); in != nil {
			return &ast.SelectorExpr{X: in, Sel: ast.NewIdent(x.Sel.Name)}
		}
	}
	return nil
}

// pkgVarLiteral returns the composite literal that initialises the
// package-level variable v (declared in f's package), or nil.
func (p *Prog) pkgVarLiteral(f *Func, v *types.Var) *ast.CompositeLit {
	info := f.Pkg.TypesInfo
	for _, file := range f.Pkg.Syntax {
		for _, d := range file.Decls {
			gd, ok := d.(*ast.GenDecl)
			if !ok || gd.Tok != token.VAR {
				continue
			}
			for _, sp := range gd.Specs {
				vs, ok := sp.(*ast.ValueSpec)
				if !ok || len(vs.Values) != len(vs.Names) {
					continue
				}
				for i, nm := range vs.Names {
					if info.Defs[nm] == v {
						cl, _ := ast.Unparen(vs.Values[i]).(*ast.CompositeLit)
						return cl
					}
				}
			}
		}
	}
	return nil
}

// pkgVarReadOnly: v is never assigned (whole or by element), never has its
// address taken and is never passed to a call in the module's functions.
func (p *Prog) pkgVarReadOnly(v *types.Var) bool {
	ok := true
	for _, f := range p.Funcs {
		if f.Body == nil || f.Pkg.Types != v.Pkg() {
			continue
		}
		info := f.Pkg.TypesInfo
		ast.Inspect(f.Body, func(x ast.Node) bool {
			switch s := x.(type) {
			case *ast.AssignStmt:
				for _, l := range s.Lhs {
					l = ast.Unparen(l)
					if ix, isIx := l.(*ast.IndexExpr); isIx {
						l = ast.Unparen(ix.X)
					}
					if identObj(info, l) == v {
						ok = false
					}
				}
			case *ast.UnaryExpr:
				if s.Op == token.AND && identObj(info, s.X) == v {
					ok = false
				}
			case *ast.CallExpr:
				if id, isId := s.Fun.(*ast.Ident); isId && id.Name == "len" {
					return true
				}
				for _, a := range s.Args {
					if identObj(info, a) == v {
						ok = false
					}
				}
			}
			return true
		})
	}
	return ok
}

// etaOverlay rewrites `g(xs, helper)` - a private, new (not in the reference
// tree) module function passed as a value - into
// `g(xs, func(a T) R { return helper(a) })`, so that the inliner can then pull
// the helper's body into the literal and the rules see the predicate where it
// is used. Only helpers whose parameters and results have predeclared types
// are expanded (no import can be missing in the receiving file).
func (p *Prog) etaOverlay() (map[string][]byte, []string) {
	type job struct {
		off  int
		decl *ast.FuncDecl
		name string
	}
	byFile := map[string][]job{}
	predeclared := func(e ast.Expr) bool {
		switch t := e.(type) {
		case *ast.Ident:
			switch t.Name {
			case "string", "bool", "int", "int32", "int64", "uint", "uint32", "uint64", "byte", "rune", "error", "float64":
				return true
			}
		case *ast.ArrayType:
			if id, ok := t.Elt.(*ast.Ident); ok && t.Len == nil {
				return id.Name == "string" || id.Name == "byte" || id.Name == "int"
			}
		}
		return false
	}
	for _, f := range p.Funcs {
		if f.Body == nil {
			continue
		}
		fname := p.Fset.Position(f.Body.Pos()).Filename
		if !inScopeFile(fname) {
			continue
		}
		info := f.Pkg.TypesInfo
		ast.Inspect(f.Body, func(n ast.Node) bool {
			call, ok := n.(*ast.CallExpr)
			if !ok {
				return true
			}
			for _, a := range call.Args {
				id, ok := a.(*ast.Ident)
				if !ok {
					continue
				}
				fo, ok := info.Uses[id].(*types.Func)
				if !ok || fo.Exported() || fo.Pkg() != f.Pkg.Types {
					continue
				}
				tf := p.FnOf(fo)
				if tf == nil || tf.Decl == nil || tf.Decl.Recv != nil || knownFuncs[tf.Name] {
					continue
				}
				okSig := tf.Decl.Type.Params != nil
				for _, fl := range []*ast.FieldList{tf.Decl.Type.Params, tf.Decl.Type.Results} {
					if fl == nil {
						continue
					}
					for _, fd := range fl.List {
						if !predeclared(fd.Type) {
							okSig = false
						}
						if fl == tf.Decl.Type.Params && len(fd.Names) == 0 {
							okSig = false
						}
						for _, nm := range fd.Names {
							if nm.Name == "_" {
								okSig = false
							}
						}
					}
				}
				if !okSig {
					continue
				}
				byFile[fname] = append(byFile[fname], job{p.Fset.Position(id.Pos()).Offset, tf.Decl, id.Name})
			}
			return true
		})
	}
	if len(byFile) == 0 {
		return nil, nil
	}
	overlay := map[string][]byte{}
	var notes []string
	for fn, js := range byFile {
		src := p.Overlay[fn]
		if src == nil {
			var err error
			if src, err = os.ReadFile(fn); err != nil {
				continue
			}
		}
		fset := token.NewFileSet()
		file, err := parser.ParseFile(fset, fn, src, parser.ParseComments)
		if err != nil {
			continue
		}
		want := map[int]job{}
		for _, j := range js {
			want[j.off] = j
		}
		changed := false
		astutil.Apply(file, func(c *astutil.Cursor) bool {
			id, ok := c.Node().(*ast.Ident)
			if !ok {
				return true
			}
			j, hit := want[fset.Position(id.Pos()).Offset]
			if !hit || id.Name != j.name {
				return true
			}
			if _, isCall := c.Parent().(*ast.CallExpr); !isCall || c.Name() != "Args" {
				return true
			}
			ft := &ast.FuncType{Params: &ast.FieldList{}}
			var args []ast.Expr
			for _, fd := range j.decl.Type.Params.List {
				nf := &ast.Field{Type: freshType(fd.Type)}
				for _, nm := range fd.Names {
					nf.Names = append(nf.Names, ast.NewIdent(nm.Name))
					args = append(args, ast.NewIdent(nm.Name))
				}
				ft.Params.List = append(ft.Params.List, nf)
			}
			inner := &ast.CallExpr{Fun: ast.NewIdent(j.name), Args: args}
			var body ast.Stmt = &ast.ExprStmt{X: inner}
			if j.decl.Type.Results != nil && len(j.decl.Type.Results.List) > 0 {
				ft.Results = &ast.FieldList{}
				for _, fd := range j.decl.Type.Results.List {
					ft.Results.List = append(ft.Results.List, &ast.Field{Type: freshType(fd.Type)})
				}
				body = &ast.ReturnStmt{Results: []ast.Expr{inner}}
			}
			c.Replace(&ast.FuncLit{Type: ft, Body: &ast.BlockStmt{List: []ast.Stmt{body}}})
			changed = true
			notes = append(notes, fmt.Sprintf("expanded function value %s into a literal", j.name))
			return false
		}, nil)
		if !changed {
			continue
		}
		var buf bytes.Buffer
		if err := format.Node(&buf, fset, file); err != nil {
			continue
		}
		overlay[fn] = buf.Bytes()
	}
	return overlay, notes
}

func freshType(e ast.Expr) ast.Expr {
	switch t := e.(type) {
	case *ast.Ident:
		return ast.NewIdent(t.Name)
	case *ast.ArrayType:
		return &ast.ArrayType{Elt: freshType(t.Elt)}
	}
	return e
}
