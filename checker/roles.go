package main

import (
	"go/ast"
	"go/types"
	"strings"
)

// Private helpers are anchors "by role, not by name": when a conventional
// private name is missing from the tree, the function that plays its role is
// looked up structurally and given the conventional (canonical) name, so that
// rule tables and obligation keys survive renames of private functions.
// Exported API names are stable by compatibility and are used directly.

type roleDef struct {
	Canon string
	Find  func(p *Prog) []*Func
}

func recvNamed(f *Func) string {
	if f.Obj == nil {
		return ""
	}
	sig := f.Obj.Type().(*types.Signature)
	if sig.Recv() == nil {
		return ""
	}
	t := sig.Recv().Type()
	if pt, ok := t.(*types.Pointer); ok {
		t = pt.Elem()
	}
	if nt, ok := t.(*types.Named); ok {
		return nt.Obj().Name()
	}
	return ""
}

// sigString renders a signature without parameter names, packages by name.
func sigString(f *Func) string {
	if f.Obj == nil {
		return ""
	}
	sig := f.Obj.Type().(*types.Signature)
	q := func(pk *types.Package) string { return pk.Name() }
	tuple := func(t *types.Tuple, variadic bool) string {
		var parts []string
		for i := 0; i < t.Len(); i++ {
			ts := types.TypeString(t.At(i).Type(), q)
			if variadic && i == t.Len()-1 {
				ts = "..." + strings.TrimPrefix(ts, "[]")
			}
			parts = append(parts, ts)
		}
		return strings.Join(parts, ", ")
	}
	out := "func(" + tuple(sig.Params(), sig.Variadic()) + ")"
	switch sig.Results().Len() {
	case 0:
	case 1:
		out += " " + tuple(sig.Results(), false)
	default:
		out += " (" + tuple(sig.Results(), false) + ")"
	}
	return out
}

func (p *Prog) declFuncs(pkgSuffix string, pred func(*Func) bool) []*Func {
	var out []*Func
	for _, f := range p.Funcs {
		if f.Decl == nil || f.Obj == nil {
			continue
		}
		if pkgSuffix != "" && !strings.HasSuffix(f.Pkg.PkgPath, pkgSuffix) {
			continue
		}
		if pkgSuffix == "" && f.Pkg.PkgPath != modPath {
			continue
		}
		if pred(f) {
			out = append(out, f)
		}
	}
	return out
}

func (p *Prog) callsAny(f *Func, names ...string) bool {
	found := false
	ast.Inspect(f.Body, func(x ast.Node) bool {
		if call, ok := x.(*ast.CallExpr); ok {
			nm := p.CalleeName(f, call)
			for _, n := range names {
				if nm == n {
					found = true
				}
			}
		}
		return !found
	})
	return found
}

func (p *Prog) usesField(f *Func, owner, field string) bool {
	fv := p.FieldObj(modPath, owner, field)
	if fv == nil {
		return false
	}
	info := f.Pkg.TypesInfo
	found := false
	ast.Inspect(f.Body, func(x ast.Node) bool {
		if se, ok := x.(*ast.SelectorExpr); ok && SelField(info, se) == fv {
			found = true
		}
		return !found
	})
	return found
}

func (p *Prog) deletesFrom(f *Func, owner, field string) bool {
	fv := p.FieldObj(modPath, owner, field)
	info := f.Pkg.TypesInfo
	found := false
	ast.Inspect(f.Body, func(x ast.Node) bool {
		if call, ok := x.(*ast.CallExpr); ok && p.CalleeName(f, call) == "builtin.delete" && len(call.Args) == 2 && SelField(info, call.Args[0]) == fv {
			found = true
		}
		return !found
	})
	return found
}

func unexportedMethod(f *Func, recv string) bool {
	return recvNamed(f) == recv && !f.Obj.Exported()
}

var roleDefs = []roleDef{
	{"Client.checkProtoVersion", func(p *Prog) []*Func {
		return p.declFuncs("", func(f *Func) bool {
			return unexportedMethod(f, "Client") && p.callsAny(f, "strconv.Atoi") && p.usesField(f, "ClientConfig", "VersionedPlugins") && strings.Contains(sigString(f), "(int, ")
		})
	}},
	{"Client.loadServerCert", func(p *Prog) []*Func {
		return p.declFuncs("", func(f *Func) bool {
			return unexportedMethod(f, "Client") && p.callsAny(f, "crypto/x509.ParseCertificate")
		})
	}},
	{"Client.reattach", func(p *Prog) []*Func {
		return p.declFuncs("", func(f *Func) bool {
			return unexportedMethod(f, "Client") && p.usesField(f, "ReattachConfig", "ReattachFunc")
		})
	}},
	{"Client.logStderr", func(p *Prog) []*Func {
		return p.declFuncs("", func(f *Func) bool {
			return unexportedMethod(f, "Client") && strings.Contains(sigString(f), "io.Reader") && p.callsAny(f, "bufio.NewReaderSize", "bufio.NewReader", "bufio.NewScanner")
		})
	}},
	{"Client.dialer", func(p *Prog) []*Func {
		return p.declFuncs("", func(f *Func) bool {
			return unexportedMethod(f, "Client") && sigString(f) == "func(string, time.Duration) (net.Conn, error)"
		})
	}},
	{"Client.getGRPCMuxer", func(p *Prog) []*Func {
		return p.declFuncs("", func(f *Func) bool {
			return unexportedMethod(f, "Client") && strings.Contains(sigString(f), "(*grpcmux.GRPCClientMuxer, error)")
		})
	}},
	{"protocolVersion", func(p *Prog) []*Func {
		return p.declFuncs("", func(f *Func) bool {
			return recvNamed(f) == "" && sigString(f) == "func(*plugin.ServeConfig) (int, plugin.Protocol, plugin.PluginSet)"
		})
	}},
	{"serverListener", func(p *Prog) []*Func {
		return p.declFuncs("", func(f *Func) bool {
			if recvNamed(f) != "" || sigString(f) != "func(plugin.UnixSocketConfig) (net.Listener, error)" {
				return false
			}
			return !p.callsAny(f, "net.Listen")
		})
	}},
	{"serverListener_unix", func(p *Prog) []*Func {
		return p.declFuncs("", func(f *Func) bool {
			return recvNamed(f) == "" && sigString(f) == "func(plugin.UnixSocketConfig) (net.Listener, error)" && p.callsAny(f, "net.Listen")
		})
	}},
	{"newDeleteFileListener", func(p *Prog) []*Func {
		return p.declFuncs("", func(f *Func) bool {
			return recvNamed(f) == "" && strings.HasPrefix(sigString(f), "func(net.Listener, string) *")
		})
	}},
	{"setGroupWritable", func(p *Prog) []*Func {
		return p.declFuncs("", func(f *Func) bool {
			return recvNamed(f) == "" && p.callsAny(f, "os.Chown") && p.callsAny(f, "os.Chmod")
		})
	}},
	{"generateCert", func(p *Prog) []*Func {
		return p.declFuncs("", func(f *Func) bool {
			return recvNamed(f) == "" && p.callsAny(f, "crypto/x509.CreateCertificate")
		})
	}},
	{"MuxBroker.getStream", func(p *Prog) []*Func {
		return p.declFuncs("", func(f *Func) bool {
			return unexportedMethod(f, "MuxBroker") && strings.HasPrefix(sigString(f), "func(uint32) *")
		})
	}},
	{"MuxBroker.timeoutWait", func(p *Prog) []*Func {
		return p.declFuncs("", func(f *Func) bool {
			return unexportedMethod(f, "MuxBroker") && p.deletesFrom(f, "MuxBroker", "streams") && strings.HasPrefix(sigString(f), "func(uint32, *")
		})
	}},
	{"GRPCBroker.getClientStream", func(p *Prog) []*Func {
		return p.declFuncs("", func(f *Func) bool {
			return unexportedMethod(f, "GRPCBroker") && strings.HasPrefix(sigString(f), "func(uint32) *") && p.usesField(f, "GRPCBroker", "clientStreams")
		})
	}},
	{"GRPCBroker.getServerStream", func(p *Prog) []*Func {
		return p.declFuncs("", func(f *Func) bool {
			return unexportedMethod(f, "GRPCBroker") && strings.HasPrefix(sigString(f), "func(uint32) *") && p.usesField(f, "GRPCBroker", "serverStreams")
		})
	}},
	{"GRPCBroker.timeoutWait", func(p *Prog) []*Func {
		return p.declFuncs("", func(f *Func) bool {
			return unexportedMethod(f, "GRPCBroker") && p.deletesFrom(f, "GRPCBroker", "clientStreams") && strings.HasPrefix(sigString(f), "func(uint32, *")
		})
	}},
	{"GRPCBroker.listenForKnocks", func(p *Prog) []*Func {
		return p.declFuncs("", func(f *Func) bool {
			return unexportedMethod(f, "GRPCBroker") && p.callsAny(f, modPath+"/internal/grpcmux.GRPCMuxer.AcceptKnock")
		})
	}},
	{"GRPCBroker.muxDial", func(p *Prog) []*Func {
		return p.declFuncs("", func(f *Func) bool {
			return unexportedMethod(f, "GRPCBroker") && sigString(f) == "func(uint32) func(string, time.Duration) (net.Conn, error)"
		})
	}},
	{"GRPCBroker.knock", func(p *Prog) []*Func {
		return p.declFuncs("", func(f *Func) bool {
			if !unexportedMethod(f, "GRPCBroker") || sigString(f) != "func(uint32) error" || p.callsAny(f, modPath+"/internal/grpcmux.GRPCMuxer.AcceptKnock") {
				return false
			}
			return p.usesField(f, "GRPCBroker", "streamer")
		})
	}},
	{"copyStream", func(p *Prog) []*Func {
		return p.declFuncs("", func(f *Func) bool {
			return recvNamed(f) == "" && sigString(f) == "func(string, io.Writer, io.Reader)"
		})
	}},
	{"copyChan", func(p *Prog) []*Func {
		return p.declFuncs("", func(f *Func) bool {
			return recvNamed(f) == "" && strings.Contains(sigString(f), "chan<- []byte") && strings.Contains(sigString(f), "io.Reader")
		})
	}},
	{"newGRPCStdioServer", func(p *Prog) []*Func {
		return p.declFuncs("", func(f *Func) bool {
			return recvNamed(f) == "" && strings.HasPrefix(sigString(f), "func(hclog.Logger, io.Reader, io.Reader) *")
		})
	}},
	{"newGRPCStdioClient", func(p *Prog) []*Func {
		return p.declFuncs("", func(f *Func) bool {
			return recvNamed(f) == "" && strings.HasPrefix(sigString(f), "func(context.Context, hclog.Logger, *grpc.ClientConn) (*")
		})
	}},
	{"dialGRPCConn", func(p *Prog) []*Func {
		return p.declFuncs("", func(f *Func) bool {
			return recvNamed(f) == "" && strings.HasPrefix(sigString(f), "func(*tls.Config, ") && strings.HasSuffix(sigString(f), "(*grpc.ClientConn, error)")
		})
	}},
	{"newGRPCBroker", func(p *Prog) []*Func {
		return p.declFuncs("", func(f *Func) bool {
			return recvNamed(f) == "" && strings.HasSuffix(sigString(f), ") *plugin.GRPCBroker")
		})
	}},
	{"newGRPCClient", func(p *Prog) []*Func {
		return p.declFuncs("", func(f *Func) bool {
			return recvNamed(f) == "" && !f.Obj.Exported() && strings.HasSuffix(sigString(f), "(*plugin.GRPCClient, error)")
		})
	}},
	{"newRPCClient", func(p *Prog) []*Func {
		return p.declFuncs("", func(f *Func) bool {
			return recvNamed(f) == "" && !f.Obj.Exported() && sigString(f) == "func(*plugin.Client) (*plugin.RPCClient, error)"
		})
	}},
	{"newMuxBroker", func(p *Prog) []*Func {
		return p.declFuncs("", func(f *Func) bool {
			return recvNamed(f) == "" && !f.Obj.Exported() && strings.HasSuffix(sigString(f), ") *plugin.MuxBroker")
		})
	}},
	{"netAddrDialer", func(p *Prog) []*Func {
		return p.declFuncs("", func(f *Func) bool {
			return recvNamed(f) == "" && sigString(f) == "func(net.Addr) func(string, time.Duration) (net.Conn, error)"
		})
	}},
	{"hostEnv", func(p *Prog) []*Func {
		return p.declFuncs("", func(f *Func) bool {
			return recvNamed(f) == "" && sigString(f) == "func() []string" && p.callsAny(f, "os.Environ")
		})
	}},
	{"grpcmux.GRPCServerMuxer.session", func(p *Prog) []*Func {
		return p.declFuncs("/internal/grpcmux", func(f *Func) bool {
			return unexportedMethod(f, "GRPCServerMuxer") && sigString(f) == "func() (*yamux.Session, error)"
		})
	}},
	{"grpcmux.GRPCServerMuxer.acceptSession", func(p *Prog) []*Func {
		return p.declFuncs("/internal/grpcmux", func(f *Func) bool {
			return unexportedMethod(f, "GRPCServerMuxer") && sigString(f) == "func(net.Listener)"
		})
	}},
	{"cmdrunner.pidWait", func(p *Prog) []*Func {
		return p.declFuncs("/internal/cmdrunner", func(f *Func) bool {
			return recvNamed(f) == "" && sigString(f) == "func(int) error" && p.callsAny(f, "time.NewTicker")
		})
	}},
}

// assignRoles renames functions that play a conventional private role but
// carry another name. Called once after indexing.
func (p *Prog) assignRoles() {
	byName := map[string]*Func{}
	for _, f := range p.Funcs {
		if f.Decl != nil {
			byName[f.Name] = f
		}
	}
	for _, rd := range roleDefs {
		if byName[rd.Canon] != nil {
			continue
		}
		cands := rd.Find(p)
		if len(cands) != 1 {
			continue
		}
		f := cands[0]
		if _, taken := p.roleOf[f]; taken {
			continue
		}
		old := f.Name
		p.roleOf[f] = old
		for _, g := range p.Funcs {
			if g == f || (g.Lit != nil && rootOf(g) == f) {
				g.Name = rd.Canon + strings.TrimPrefix(g.Name, old)
			}
		}
		byName[rd.Canon] = f
	}
}

func rootOf(f *Func) *Func {
	for f.Parent != nil {
		f = f.Parent
	}
	return f
}

// ---- type roles ----

type typeRole struct {
	Canon string
	Pkg   string // package path suffix ("" = root)
	Match func(st *types.Struct) bool
}

func hasFieldOfType(st *types.Struct, typ string, embedded bool) bool {
	q := func(pk *types.Package) string { return pk.Name() }
	for i := 0; i < st.NumFields(); i++ {
		if types.TypeString(st.Field(i).Type(), q) == typ && (!embedded || st.Field(i).Embedded()) {
			return true
		}
	}
	return false
}

var typeRoles = []typeRole{
	{"rmListener", "", func(st *types.Struct) bool {
		return hasFieldOfType(st, "net.Listener", true) && hasFieldOfType(st, "func() error", false)
	}},
	{"muxBrokerPending", "", func(st *types.Struct) bool {
		return st.NumFields() == 2 && hasFieldOfType(st, "chan net.Conn", false) && hasFieldOfType(st, "chan struct{}", false)
	}},
	{"gRPCBrokerPending", "", func(st *types.Struct) bool {
		return hasFieldOfType(st, "chan *plugin.ConnInfo", false) && hasFieldOfType(st, "chan struct{}", false) && !hasFieldOfType(st, "chan *plugin.sendErr", false) && st.NumFields() <= 4
	}},
}

func (p *Prog) assignTypeRoles() {
	for _, tr := range typeRoles {
		pkPath := modPath + tr.Pkg
		pk := p.Pkgs[pkPath]
		if pk == nil {
			continue
		}
		sc := pk.Types.Scope()
		if sc.Lookup(tr.Canon) != nil {
			continue
		}
		var cands []*types.TypeName
		for _, n := range sc.Names() {
			tn, ok := sc.Lookup(n).(*types.TypeName)
			if !ok || tn.IsAlias() {
				continue
			}
			if st, ok := tn.Type().Underlying().(*types.Struct); ok && tr.Match(st) {
				cands = append(cands, tn)
			}
		}
		if len(cands) == 1 {
			p.typeCanon[cands[0]] = tr.Canon
			p.typeByCanon[tr.Canon] = cands[0]
		}
	}
}

// serialLockVars: mutexes whose purpose is to serialise a whole operation —
// the one Client.Start/Client.Client take, and the one the multiplexed dialer takes.
func (p *Prog) serialLockVars() map[*types.Var]string {
	out, _ := p.serialLocks()
	return out
}

// serialLocks also returns, per serialisation lock, the functions designated
// to take it: a wait under the lock is excused only in their regions (or in
// their synchronous callees), not wherever else the lock gets taken.
func (p *Prog) serialLocks() (map[*types.Var]string, map[*types.Var]map[*Func]bool) {
	out := map[*types.Var]string{}
	holders := map[*types.Var]map[*Func]bool{}
	add := func(f *Func, why string) {
		if f == nil {
			return
		}
		for _, call := range f.Calls() {
			if v, op := p.lockOp(f, call); v != nil && op == "lock" {
				out[v] = why
				if holders[v] == nil {
					holders[v] = map[*Func]bool{}
				}
				holders[v][f] = true
			}
		}
	}
	add(p.Fn("Client.Start"), "Start/Client() are serialised under the client lock by design; their waits are bounded by StartTimeout and the exit context (R-BOUND decides that)")
	add(p.Fn("Client.Client"), "Start/Client() are serialised under the client lock by design; the connect path contains no unbounded wait")
	if md := p.Fn("GRPCBroker.muxDial"); md != nil {
		nLit := 0
		for _, lf := range p.Funcs {
			if lf.Lit != nil && lf.Parent == md {
				nLit++
				add(lf, "exists to serialise knock+dial of multiplexed connections (R-MUXSER requires it); the waits under it have a 5 s timer or the broker's quit arm")
			}
		}
		if nLit == 0 {
			// muxDial is the dial step itself (its caller wraps it in the dialer closure)
			add(md, "exists to serialise knock+dial of multiplexed connections (R-MUXSER requires it); the waits under it have a 5 s timer or the broker's quit arm")
		}
	}
	return out, holders
}
