package main

import (
	"bufio"
	"crypto/sha1"
	"encoding/json"
	"fmt"
	"os"
	"path/filepath"
	"sort"
	"strings"
	"time"
)

// Obligation is one decided instance of a rule at one construct.
type Obligation struct {
	Rule      string   `json:"rule"`
	Site      string   `json:"site"`      // file:line
	Func      string   `json:"function"`  // enclosing function
	Construct string   `json:"construct"` // what was looked at
	Verdict   string   `json:"verdict"`   // holds | violated | undecided | exception
	Detail    string   `json:"detail,omitempty"`
	Path      []string `json:"path,omitempty"`
	Key       string   `json:"key"` // rule|function|construct — never a line number
	Hard      bool     `json:"nontrivial"`
}

// Report collects what one check covered.
type Report struct {
	Prop        string
	Tier        string
	Obs         []*Obligation
	Funcs       map[string]bool
	Rules       map[string]int
	Assumptions []string
	Notes       []string
	CallSites   int
	start       time.Time
	Mutants     *MutantResult
}

type MutantResult struct {
	Tried    int      `json:"tried"`
	Detected int      `json:"detected"`
	Skipped  int      `json:"skipped_not_compiling"`
	Missed   []string `json:"missed,omitempty"`
	Names    []string `json:"detected_names,omitempty"`
}

func NewReport(prop, tier string) *Report {
	return &Report{Prop: prop, Tier: tier, Funcs: map[string]bool{}, Rules: map[string]int{}, start: time.Now()}
}

func mkKey(rule, fn, construct string) string {
	return rule + "|" + fn + "|" + construct
}

func (r *Report) add(o *Obligation) *Obligation {
	if o.Key == "" {
		o.Key = mkKey(o.Rule, o.Func, o.Construct)
	}
	r.Obs = append(r.Obs, o)
	r.Rules[o.Rule]++
	if o.Func != "" {
		r.Funcs[o.Func] = true
	}
	return o
}

// Hold records a discharged obligation.
func (r *Report) Hold(rule, site, fn, construct, detail string, hard bool) {
	r.add(&Obligation{Rule: rule, Site: site, Func: fn, Construct: construct, Verdict: "holds", Detail: detail, Hard: hard})
}

// Except records an obligation discharged by a reviewed, named exception.
func (r *Report) Except(rule, site, fn, construct, reason string) {
	r.add(&Obligation{Rule: rule, Site: site, Func: fn, Construct: construct, Verdict: "exception", Detail: reason, Hard: true})
}

// Violate records a violated obligation.
func (r *Report) Violate(rule, site, fn, construct, detail string, path []string) {
	r.add(&Obligation{Rule: rule, Site: site, Func: fn, Construct: construct, Verdict: "violated", Detail: detail, Path: path, Hard: true})
}

// Undecided records an obligation the checker could not decide (lost anchor,
// floor not met, cap hit). It fails the check.
func (r *Report) Undecided(rule, fn, construct, detail string) {
	r.add(&Obligation{Rule: rule, Site: "-", Func: fn, Construct: construct, Verdict: "undecided", Detail: detail, Hard: true})
}

// Floor fails the check if fewer than min obligations of the rule were found.
func (r *Report) Floor(rule string, min int) {
	if r.Rules[rule] < min {
		r.Undecided(rule, "", "instance-floor", fmt.Sprintf("only %d obligations found, at least %d were confirmed by hand; the rule may have lost its anchors", r.Rules[rule], min))
	}
}

// CountSince returns how many obligations of rule were recorded.
func (r *Report) Count(rule string) int { return r.Rules[rule] }

func (r *Report) Assume(s ...string) {
	for _, a := range s {
		dup := false
		for _, b := range r.Assumptions {
			if a == b {
				dup = true
			}
		}
		if !dup {
			r.Assumptions = append(r.Assumptions, a)
		}
	}
}

// ---- known findings ----

type knownFinding struct {
	Prop, Key, What string
}

func loadKnown(path string) ([]knownFinding, error) {
	f, err := os.Open(path)
	if err != nil {
		if os.IsNotExist(err) {
			return nil, nil
		}
		return nil, err
	}
	defer f.Close()
	var out []knownFinding
	sc := bufio.NewScanner(f)
	for sc.Scan() {
		line := strings.TrimSpace(sc.Text())
		if !strings.HasPrefix(line, "known:") {
			continue // comments and "fixed:" lines suppress nothing
		}
		rest := strings.TrimSpace(strings.TrimPrefix(line, "known:"))
		var kf knownFinding
		fields := strings.SplitN(rest, " ", 3)
		for i, fl := range fields {
			switch {
			case strings.HasPrefix(fl, "property="):
				kf.Prop = strings.TrimPrefix(fl, "property=")
			case strings.HasPrefix(fl, "key="):
				kf.Key = strings.TrimPrefix(fl, "key=")
			default:
				kf.What = strings.Join(fields[i:], " ")
			}
		}
		if kf.Prop != "" && kf.Key != "" {
			out = append(out, kf)
		}
	}
	return out, sc.Err()
}

// ---- finishing: evidence, replay, exit code ----

type levelInfo struct {
	Explanation string
	Rule        string
	Trusted     []string
}

func (r *Report) Finish(verifDir string, li levelInfo, seed int) int {
	known, err := loadKnown(filepath.Join(verifDir, "known_findings.txt"))
	if err != nil {
		fmt.Printf("error reading known findings: %v\n", err)
		return 1
	}
	var bad []*Obligation
	nKnown := 0
	discharged := 0
	hard := map[string]bool{}
	for _, o := range r.Obs {
		switch o.Verdict {
		case "holds", "exception":
			discharged++
		case "violated":
			matched := false
			for _, k := range known {
				if k.Prop == r.Prop && k.Key == o.Key {
					fmt.Printf("KNOWN-FINDING: property=%s %s (%s at %s)\n", r.Prop, k.What, o.Rule, o.Site)
					matched = true
					nKnown++
				}
			}
			if !matched {
				bad = append(bad, o)
			}
		default:
			bad = append(bad, o)
		}
		if o.Hard {
			hard[o.Key] = true
		}
	}
	if dumpAll {
		for _, o := range r.Obs {
			fmt.Printf("OB %-9s %-20s %-40s %-45s %s | %s\n", o.Verdict, o.Rule, o.Site, o.Func, o.Construct, o.Detail)
		}
	}
	os.MkdirAll(filepath.Join(verifDir, "replay"), 0o755)
	os.MkdirAll(filepath.Join(verifDir, "evidence"), 0o755)
	for _, o := range bad {
		h := sha1.Sum([]byte(o.Key))
		rp := filepath.Join(verifDir, "replay", fmt.Sprintf("%s-%x.json", r.Prop, h[:5]))
		b, _ := json.MarshalIndent(map[string]interface{}{"property": r.Prop, "tier": r.Tier, "obligation": o}, "", " ")
		os.WriteFile(rp, b, 0o644)
		fmt.Printf("VIOLATION property=%s replay=%s\n", r.Prop, rp)
		fmt.Printf("  rule=%s kind=%s site=%s function=%s\n  construct: %s\n  %s\n", o.Rule, o.Verdict, o.Site, o.Func, o.Construct, o.Detail)
		if len(o.Path) > 0 {
			fmt.Printf("  path: %s\n", strings.Join(o.Path, " -> "))
		}
	}
	// samples: a spread of obligations, violations first
	var samples []*Obligation
	samples = append(samples, bad...)
	seenRule := map[string]int{}
	for _, o := range r.Obs {
		if len(samples) >= 40 {
			break
		}
		if o.Verdict == "violated" || o.Verdict == "undecided" {
			continue
		}
		if seenRule[o.Rule] >= 3 {
			continue
		}
		seenRule[o.Rule]++
		samples = append(samples, o)
	}
	var fns []string
	for f := range r.Funcs {
		fns = append(fns, f)
	}
	sort.Strings(fns)
	cov := map[string]interface{}{
		"explanation":         li.Explanation,
		"rule":                li.Rule,
		"obligations":         len(r.Obs),
		"discharged":          discharged + nKnown,
		"evaluations":         len(r.Obs),
		"distinct_nontrivial": len(hard),
		"samples":             samples,
		"functions":           fns,
		"functions_count":     len(fns),
		"call_sites":          r.CallSites,
		"rules":               r.Rules,
		"known_findings":      nKnown,
		"checker_cmd":         "bin/gpcheck -prop " + r.Prop + " -tier " + r.Tier,
		"trusted_base":        li.Trusted,
		"notes":               r.Notes,
	}
	if r.Mutants != nil {
		cov["mutants"] = r.Mutants
	}
	if r.Assumptions == nil {
		r.Assumptions = []string{}
	}
	if r.Notes == nil {
		r.Notes = []string{}
	}
	ev := map[string]interface{}{
		"property_id": r.Prop,
		"tier":        r.Tier,
		"seed":        seed,
		"level":       "other",
		"coverage":    cov,
		"assumptions": r.Assumptions,
		"wall_s":      float64(int(time.Since(r.start).Seconds()*100)) / 100,
		"violations":  len(bad),
	}
	b, _ := json.MarshalIndent(ev, "", " ")
	if err := os.WriteFile(filepath.Join(verifDir, "evidence", r.Prop+".json"), append(b, '\n'), 0o644); err != nil {
		fmt.Printf("cannot write evidence: %v\n", err)
		return 1
	}
	// summary line
	var rl []string
	for k, v := range r.Rules {
		rl = append(rl, fmt.Sprintf("%s=%d", k, v))
	}
	sort.Strings(rl)
	fmt.Printf("%s %s: %d obligations over %d functions (%s); %d violations, %d known findings\n",
		r.Prop, r.Tier, len(r.Obs), len(fns), strings.Join(rl, " "), len(bad), nKnown)
	if len(bad) > 0 {
		return 1
	}
	return 0
}
