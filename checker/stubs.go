package main

func runSelftest(verif string) int { return 0 }

func runMutants(repo, verif string, pd *propDef, verbose bool) int { return 0 }

func mutantSweep(repo string, pd *propDef) *MutantResult { return nil }
