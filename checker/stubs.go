package main

// Rules that are registered but not implemented yet. A property that still
// uses one of these is not entered in MANIFEST.json.

var pendingRules = map[string]bool{}

func pending(c *Ctx, name string) {
	pendingRules[name] = true
	c.R.Notes = append(c.R.Notes, "rule "+name+" is not implemented yet")
}

func runSelftest(verif string) int { return 0 }

func runMutants(repo, verif string, pd *propDef, verbose bool) int { return 0 }

func mutantSweep(repo string, pd *propDef) *MutantResult { return nil }

