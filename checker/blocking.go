package main

import (
	"fmt"
	"go/ast"
	"go/token"
	"go/types"
	"sort"
	"strings"
)

// Blocking-operation classification shared by R-BOUND and R-LOCKBLOCK.
//
//	A  non-blocking: select with a default arm
//	B  bounded: select with a timer arm (time.After / Timer.C / a local bound to one)
//	C  terminating: select with a cancellation arm (ctx.Done(), a done/quit channel)
//	D  bare: plain send/receive, select without such an arm, range over a channel
//	W  WaitGroup.Wait / Cond.Wait / time.Sleep
type BlockOp struct {
	F      *Func
	Ast    ast.Node
	Node   *Node
	Kind   string // send, recv, select, range, wait, sleep
	Class  string
	Desc   string   // rename-robust descriptor
	Arms   []string // for select
	Timer  string   // duration expression of the timer arm
	TimerK int64    // constant duration in ns, 0 if not constant
	HasCtx bool
}

// chanDesc renders a channel operand rename-robustly: fields by owner.field,
// calls by callee, locals by type.
func (p *Prog) chanDesc(f *Func, e ast.Expr) string {
	info := f.Pkg.TypesInfo
	e = ast.Unparen(e)
	if fv := SelField(info, e); fv != nil {
		return p.FieldName(fv)
	}
	if call, ok := e.(*ast.CallExpr); ok {
		n := p.CalleeName(f, call)
		if n == "" {
			return "call:" + exprStr(call.Fun)
		}
		return "call:" + shortName(n)
	}
	if t := info.TypeOf(e); t != nil {
		return "local:" + types.TypeString(t, func(pk *types.Package) string { return pk.Name() })
	}
	return exprStr(e)
}

func (p *Prog) isTimerChan(f *Func, e ast.Expr) (bool, ast.Expr) {
	info := f.Pkg.TypesInfo
	e = ast.Unparen(e)
	// ctx.Done() of a context made by context.WithTimeout(parent, d) in this
	// function (or an enclosing one): fires after d at the latest
	if call, ok := e.(*ast.CallExpr); ok && len(call.Args) == 0 {
		if se, ok := ast.Unparen(call.Fun).(*ast.SelectorExpr); ok && se.Sel.Name == "Done" {
			if v, ok := identObj(info, se.X).(*types.Var); ok && !v.IsField() {
				for x := f; x != nil; x = x.Parent {
					var dur ast.Expr
					n := 0
					ast.Inspect(x.Body, func(y ast.Node) bool {
						as, ok := y.(*ast.AssignStmt)
						if !ok {
							return true
						}
						for _, l := range as.Lhs {
							if identObj(info, l) == types.Object(v) {
								n++
								if len(as.Rhs) == 1 && len(as.Lhs) == 2 {
									if mk, ok := ast.Unparen(as.Rhs[0]).(*ast.CallExpr); ok && p.CalleeName(x, mk) == "context.WithTimeout" && len(mk.Args) == 2 {
										dur = mk.Args[1]
									}
								}
							}
						}
						return true
					})
					if n == 1 && dur != nil {
						return true, dur
					}
					if n > 0 {
						break
					}
				}
			}
		}
	}
	if call, ok := e.(*ast.CallExpr); ok {
		switch p.CalleeName(f, call) {
		case "time.After":
			return true, call.Args[0]
		case "time.Tick":
			return true, call.Args[0]
		}
	}
	if se, ok := e.(*ast.SelectorExpr); ok && se.Sel.Name == "C" {
		if t := info.TypeOf(se.X); t != nil {
			ts := t.String()
			if ts == "*time.Timer" || ts == "*time.Ticker" || ts == "time.Timer" {
				// x := time.NewTimer(d): the duration is d
				var dur ast.Expr
				if v, ok := identObj(info, se.X).(*types.Var); ok {
					ast.Inspect(f.Body, func(x ast.Node) bool {
						as, ok := x.(*ast.AssignStmt)
						if !ok {
							return true
						}
						for i, l := range as.Lhs {
							if identObj(info, l) == v && len(as.Rhs) == len(as.Lhs) {
								if call, ok := ast.Unparen(as.Rhs[i]).(*ast.CallExpr); ok && p.CalleeName(f, call) == "time.NewTimer" {
									dur = call.Args[0]
								}
							}
						}
						return true
					})
				}
				return true, dur
			}
		}
	}
	// local variable assigned exactly once from time.After
	if v, ok := identObj(info, e).(*types.Var); ok && !v.IsField() {
		var dur ast.Expr
		n := 0
		ast.Inspect(f.Body, func(x ast.Node) bool {
			as, ok := x.(*ast.AssignStmt)
			if !ok {
				return true
			}
			for i, l := range as.Lhs {
				if identObj(info, l) == v && len(as.Rhs) == len(as.Lhs) {
					n++
					if call, ok := ast.Unparen(as.Rhs[i]).(*ast.CallExpr); ok && p.CalleeName(f, call) == "time.After" {
						dur = call.Args[0]
					}
				}
			}
			return true
		})
		if n == 1 && dur != nil {
			return true, dur
		}
	}
	return false, nil
}

func (p *Prog) isCancelChan(f *Func, e ast.Expr) bool {
	info := f.Pkg.TypesInfo
	e = ast.Unparen(e)
	if call, ok := e.(*ast.CallExpr); ok {
		n := p.CalleeName(f, call)
		if n == "context.Context.Done" {
			return true
		}
		if strings.HasSuffix(n, ".Context.Done") || strings.HasSuffix(n, ".Done") && strings.Contains(n, "context") {
			return true
		}
		return false
	}
	// a done/quit channel: element type struct{} and the variable/field is only
	// ever closed, never sent on, in the module (checked by name+type here, by
	// R-CLOSE1 for the closing discipline).
	t := info.TypeOf(e)
	ch, ok := t.Underlying().(*types.Chan)
	if !ok {
		return false
	}
	if st, ok := ch.Elem().Underlying().(*types.Struct); !ok || st.NumFields() != 0 {
		return false
	}
	var name string
	if fv := SelField(info, e); fv != nil {
		name = fv.Name()
	} else if v, ok := identObj(info, e).(*types.Var); ok {
		name = v.Name()
		// a local bound to ctx.Done()
		isDone := false
		ast.Inspect(f.Body, func(x ast.Node) bool {
			as, ok := x.(*ast.AssignStmt)
			if !ok {
				return true
			}
			for i, l := range as.Lhs {
				if identObj(info, l) == v && len(as.Rhs) == len(as.Lhs) {
					if call, ok := ast.Unparen(as.Rhs[i]).(*ast.CallExpr); ok && strings.HasSuffix(p.CalleeName(f, call), "Context.Done") {
						isDone = true
					}
				}
			}
			return true
		})
		if isDone {
			return true
		}
		// a local of the enclosing function that only a defer of that function
		// closes: it is closed when the function has returned
		root := f
		for root.Parent != nil {
			root = root.Parent
		}
		if p.abandonChans(root)[v] != nil {
			return true
		}
	}
	ln := strings.ToLower(name)
	return strings.Contains(ln, "done") || strings.Contains(ln, "quit") || strings.Contains(ln, "close")
}

func durationConst(info *types.Info, e ast.Expr) int64 {
	if e == nil {
		return 0
	}
	if k, ok := constInt(info, e); ok {
		return k
	}
	return 0
}

var blockCache = map[*Func][]*BlockOp{}

// BlockOps lists the blocking operations of f's own body (not nested literals).
func (p *Prog) BlockOps(f *Func) []*BlockOp {
	if ops, ok := blockCache[f]; ok {
		return ops
	}
	info := f.Pkg.TypesInfo
	g := p.Graph(f)
	var ops []*BlockOp
	inSelectComm := map[ast.Node]bool{}
	walkNoLit(f.Body, func(n ast.Node) bool {
		if s, ok := n.(*ast.SelectStmt); ok {
			for _, cl := range s.Body.List {
				if cm := cl.(*ast.CommClause).Comm; cm != nil {
					ast.Inspect(cm, func(x ast.Node) bool {
						if x != nil {
							inSelectComm[x] = true
						}
						return true
					})
				}
			}
		}
		return true
	})
	walkNoLit(f.Body, func(n ast.Node) bool {
		switch s := n.(type) {
		case *ast.SelectStmt:
			op := &BlockOp{F: f, Ast: s, Kind: "select"}
			hasDefault, hasTimer, hasCancel := false, false, false
			for _, cl := range s.Body.List {
				cc := cl.(*ast.CommClause)
				if cc.Comm == nil {
					hasDefault = true
					op.Arms = append(op.Arms, "default")
					continue
				}
				var ch ast.Expr
				dir := "recv"
				switch cm := cc.Comm.(type) {
				case *ast.SendStmt:
					ch, dir = cm.Chan, "send"
				case *ast.ExprStmt:
					if u, ok := ast.Unparen(cm.X).(*ast.UnaryExpr); ok && u.Op == token.ARROW {
						ch = u.X
					}
				case *ast.AssignStmt:
					if u, ok := ast.Unparen(cm.Rhs[0]).(*ast.UnaryExpr); ok && u.Op == token.ARROW {
						ch = u.X
					}
				}
				if ch == nil {
					op.Arms = append(op.Arms, "?")
					continue
				}
				if dir == "recv" {
					if ok, dur := p.isTimerChan(f, ch); ok {
						hasTimer = true
						op.Timer = exprStr(dur)
						op.TimerK = durationConst(info, dur)
						op.Arms = append(op.Arms, "recv timer("+exprStr(dur)+")")
						continue
					}
					if p.isCancelChan(f, ch) {
						hasCancel = true
						op.HasCtx = true
					}
				}
				op.Arms = append(op.Arms, dir+" "+p.chanDesc(f, ch))
			}
			switch {
			case hasDefault:
				op.Class = "A"
			case hasTimer:
				op.Class = "B"
			case hasCancel:
				op.Class = "C"
			default:
				op.Class = "D"
			}
			arms := append([]string{}, op.Arms...)
			sort.Strings(arms)
			op.Desc = "select{" + strings.Join(arms, "; ") + "}"
			ops = append(ops, op)
			if len(s.Body.List) > 0 {
				if cm := s.Body.List[0].(*ast.CommClause).Comm; cm != nil {
					op.Node = g.NodeOf(cm)
				} else if len(s.Body.List) > 1 {
					if cm := s.Body.List[1].(*ast.CommClause).Comm; cm != nil {
						op.Node = g.NodeOf(cm)
					}
				}
			}
		case *ast.SendStmt:
			if !inSelectComm[s] {
				ops = append(ops, &BlockOp{F: f, Ast: s, Node: g.NodeOf(s), Kind: "send", Class: "D", Desc: "send " + p.chanDesc(f, s.Chan)})
			}
		case *ast.UnaryExpr:
			if s.Op == token.ARROW && !inSelectComm[s] {
				// a bare receive from a timer or ticker channel is a bounded wait
				if isT, dur := p.isTimerChan(f, s.X); isT {
					ops = append(ops, &BlockOp{F: f, Ast: s, Node: g.NodeOf(s), Kind: "recv", Class: "B", Desc: "recv timer(" + exprStr(dur) + ")", Timer: exprStr(dur), TimerK: durationConst(info, dur)})
				} else {
					ops = append(ops, &BlockOp{F: f, Ast: s, Node: g.NodeOf(s), Kind: "recv", Class: "D", Desc: "recv " + p.chanDesc(f, s.X)})
				}
			}
		case *ast.RangeStmt:
			if t := info.TypeOf(s.X); t != nil {
				if _, ok := t.Underlying().(*types.Chan); ok {
					ops = append(ops, &BlockOp{F: f, Ast: s, Node: g.NodeOf(s.X), Kind: "range", Class: "D", Desc: "range " + p.chanDesc(f, s.X)})
				}
			}
		case *ast.CallExpr:
			switch p.CalleeName(f, s) {
			case "sync.WaitGroup.Wait":
				sel := s.Fun.(*ast.SelectorExpr)
				ops = append(ops, &BlockOp{F: f, Ast: s, Node: g.NodeOf(s), Kind: "wait", Class: "W", Desc: "wait " + p.chanDesc(f, sel.X)})
			case "sync.Cond.Wait":
				ops = append(ops, &BlockOp{F: f, Ast: s, Node: g.NodeOf(s), Kind: "wait", Class: "W", Desc: "cond-wait"})
			case "time.Sleep":
				ops = append(ops, &BlockOp{F: f, Ast: s, Node: g.NodeOf(s), Kind: "sleep", Class: "W", Desc: "sleep " + exprStr(s.Args[0])})
			}
		}
		return true
	})
	blockCache[f] = ops
	return ops
}

var mayBlockCache = map[*Prog]map[*Func]*BlockOp{}

// MayBlock returns a witness blocking operation (class B, C, D or W) that f may
// execute synchronously: in its own body or in a module function it calls
// (not via go), transitively. Class A operations do not block.
func (p *Prog) MayBlock(f *Func) *BlockOp {
	m := mayBlockCache[p]
	if m == nil {
		m = map[*Func]*BlockOp{}
		ci := p.Calls()
		for _, fn := range p.Funcs {
			for _, op := range p.BlockOps(fn) {
				if op.Class != "A" {
					m[fn] = op
					break
				}
			}
		}
		changed := true
		for changed {
			changed = false
			for _, fn := range p.Funcs {
				if m[fn] != nil {
					continue
				}
				for _, cs := range ci.sites[fn] {
					if cs.Kind == "go" {
						continue
					}
					cands := append([]*Func{}, cs.Callees...)
					if cs.ViaOnce {
						cands = append(cands, cs.ArgLits...)
					}
					for _, ce := range cands {
						if ce != nil && m[ce] != nil {
							m[fn] = m[ce]
							changed = true
						}
					}
				}
			}
		}
		mayBlockCache[p] = m
	}
	return m[f]
}

func (op *BlockOp) String() string {
	return fmt.Sprintf("%s[%s]", op.Desc, op.Class)
}
