package main

import (
	"fmt"
	"go/ast"
	"go/token"
	"go/types"
	"strings"
)

// R-ASSERT — no panicking type assertion on plugin-controlled data: functions
// reachable from the goroutines that read the plugin's stdout/stderr.
func ruleAssert(c *Ctx) {
	p := c.P
	var roots []*Func
	start := p.Fn("Client.Start")
	if start == nil {
		c.R.Undecided("R-ASSERT", "Client.Start", "anchor", "function not found")
		return
	}
	ci := p.Calls()
	for _, cs := range ci.sites[start] {
		if cs.Kind == "go" {
			roots = append(roots, cs.Callees...)
		}
	}
	// the deferred launcher: defer func(){ go func(){...}() }()
	for _, f := range p.Funcs {
		if f.Lit != nil && f.Parent == start {
			for _, cs := range ci.sites[f] {
				if cs.Kind == "go" {
					roots = append(roots, cs.Callees...)
				}
			}
		}
	}
	reach := p.ReachableFuncs(roots, true)
	sawJSON := false
	ord := map[*Func]int{}
	n := 0
	for f := range reach {
		info := f.Pkg.TypesInfo
		for _, call := range f.Calls() {
			if p.CalleeName(f, call) == "encoding/json.Unmarshal" {
				sawJSON = true
			}
		}
		walkNoLit(f.Body, func(x ast.Node) bool {
			ta, ok := x.(*ast.TypeAssertExpr)
			if !ok || ta.Type == nil {
				return true
			}
			n++
			commaOk := false
			switch par := p.Parent(ta).(type) {
			case *ast.AssignStmt:
				commaOk = len(par.Lhs) == 2 && len(par.Rhs) == 1
			case *ast.ValueSpec:
				commaOk = len(par.Names) == 2 && len(par.Values) == 1
			}
			ord[f]++
			construct := fmt.Sprintf("%s #%d", exprStr(ta), ord[f])
			_ = info
			if commaOk {
				c.R.Hold("R-ASSERT", p.Pos(ta), f.Name, construct, "comma-ok form", false)
			} else if p.poolValueOfType(f, ta) {
				c.R.Hold("R-ASSERT", p.Pos(ta), f.Name, construct, "the asserted value is not plugin data: it comes from a package-level sync.Pool whose New function and every Put in the module supply a value of exactly the asserted type", false)
			} else {
				c.R.Violate("R-ASSERT", p.Pos(ta), f.Name, construct,
					"single-result type assertion on data derived from plugin output: a value of another type panics the host (reachable from the stdout/stderr reader goroutines of Client.Start)", nil)
			}
			return true
		})
	}
	if !sawJSON || len(roots) < 3 {
		c.R.Undecided("R-ASSERT", "Client.Start", "anchor", fmt.Sprintf("reader goroutines/JSON parser not found (roots=%d, json=%v)", len(roots), sawJSON))
	}
	c.R.Hold("R-ASSERT", p.Pos(start.Node()), start.Name, "reachability", fmt.Sprintf("%d functions reachable from %d reader goroutines, %d type assertions examined", len(reach), len(roots), n), true)
}

// R-DRAIN — both plugin pipes are read to EOF and every stderr line is copied.
func ruleDrain(c *Ctx) {
	p := c.P
	start := p.Fn("Client.Start")
	if start == nil {
		c.R.Undecided("R-DRAIN", "Client.Start", "anchor", "function not found")
		return
	}
	runnerPkg := modPath + "/runner.Runner."
	found := map[string]bool{}
	var consumers []struct {
		f    *Func
		src  *types.Var // variable holding the pipe reader (nil if used inline)
		expr ast.Expr   // inline source expression
		pipe string
	}
	// locate uses of runner.Stdout()/Stderr() in Start and its literals
	var scan []*Func
	scan = append(scan, start)
	for _, f := range p.Funcs {
		for q := f.Parent; q != nil; q = q.Parent {
			if q == start {
				scan = append(scan, f)
			}
		}
	}
	for _, f := range scan {
		info := f.Pkg.TypesInfo
		for _, call := range f.Calls() {
			full := p.CalleeName(f, call)
			var pipe string
			switch full {
			case runnerPkg + "Stdout":
				pipe = "stdout"
			case runnerPkg + "Stderr":
				pipe = "stderr"
			default:
				continue
			}
			found[pipe] = true
			par := p.Parent(call)
			switch pp := par.(type) {
			case *ast.AssignStmt:
				for i, r := range pp.Rhs {
					if r == call && i < len(pp.Lhs) {
						if v, ok := identObj(info, pp.Lhs[i]).(*types.Var); ok {
							// the reader may be consumed in this function or in a
							// goroutine literal that captures the variable
							user := f
							usedHere := false
							for _, uc := range f.Calls() {
								for _, a := range uc.Args {
									if identObj(info, a) == v {
										usedHere = true
									}
								}
							}
							if !usedHere {
								for _, lf := range scan {
									if lf == f {
										continue
									}
									for _, uc := range lf.Calls() {
										for _, a := range uc.Args {
											if identObj(lf.Pkg.TypesInfo, a) == v {
												user = lf
											}
										}
									}
								}
							}
							consumers = append(consumers, struct {
								f    *Func
								src  *types.Var
								expr ast.Expr
								pipe string
							}{user, v, nil, pipe})
						}
					}
				}
			case *ast.CallExpr:
				// io.TeeReader(pipe, w) handed on: what matters is who consumes the tee
				var self ast.Expr = call
				if p.CalleeName(f, pp) == "io.TeeReader" && len(pp.Args) == 2 && pp.Args[0] == ast.Expr(call) {
					if outer, ok := p.Parent(pp).(*ast.CallExpr); ok {
						// a write error of the tee's writer becomes a read error of the
						// tee, which ends the drain: a module writer used there must
						// never report one
						p.teeWriterNeverFails(c, f, pp.Args[1], pipe)
						self, pp = pp, outer
					}
				}
				// argument of another call: a module function (parameter) or a wrapper constructor
				callee := p.FnOf(asFunc(p.Callee(f, pp)))
				if callee != nil {
					for i, a := range pp.Args {
						if a == self {
							if pv := paramVar(callee, i); pv != nil {
								consumers = append(consumers, struct {
									f    *Func
									src  *types.Var
									expr ast.Expr
									pipe string
								}{callee, pv, nil, pipe})
							}
						}
					}
				} else {
					consumers = append(consumers, struct {
						f    *Func
						src  *types.Var
						expr ast.Expr
						pipe string
					}{f, nil, call, pipe})
				}
			}
		}
	}
	for _, pipe := range []string{"stdout", "stderr"} {
		if !found[pipe] {
			c.R.Undecided("R-DRAIN", "Client.Start", pipe, "no reader of the plugin's "+pipe+" pipe found in Client.Start")
		}
	}
	for _, cn := range consumers {
		p.drainCheck(c, cn.f, cn.src, cn.expr, cn.pipe)
	}
}

func asFunc(o types.Object) *types.Func {
	f, _ := o.(*types.Func)
	return f
}

func paramVar(f *Func, idx int) *types.Var {
	info := f.Pkg.TypesInfo
	i := 0
	for _, fd := range f.Type.Params.List {
		for _, nm := range fd.Names {
			if i == idx {
				v, _ := info.Defs[nm].(*types.Var)
				return v
			}
			i++
		}
	}
	return nil
}

func (p *Prog) drainCheck(c *Ctx, f *Func, src *types.Var, inline ast.Expr, pipe string) {
	info := f.Pkg.TypesInfo
	g := p.Graph(f)
	var isSrc func(e ast.Expr) bool
	isSrc = func(e ast.Expr) bool {
		if inline != nil && e == inline {
			return true
		}
		if src != nil && identObj(info, e) == src {
			return true
		}
		// io.TeeReader(src, w): every byte read through it is read from src
		if call, ok := ast.Unparen(e).(*ast.CallExpr); ok && len(call.Args) == 2 && p.CalleeName(f, call) == "io.TeeReader" {
			return isSrc(call.Args[0])
		}
		// a local bound once to such an expression
		if v, ok := identObj(info, e).(*types.Var); ok && !v.IsField() && types.Object(v) != types.Object(src) {
			if d := p.singleDef(f, v); d != nil {
				if call, ok := ast.Unparen(d).(*ast.CallExpr); ok && len(call.Args) == 2 && p.CalleeName(f, call) == "io.TeeReader" {
					return isSrc(call.Args[0])
				}
			}
		}
		return false
	}
	handled := false
	for _, call := range f.Calls() {
		full := p.CalleeName(f, call)
		switch full {
		case "bufio.NewScanner":
			if !isSrc(call.Args[0]) {
				continue
			}
			handled = true
			w := assignedVar(p, info, call)
			construct := pipe + " via bufio.Scanner"
			if w == nil {
				c.R.Undecided("R-DRAIN", f.Name, construct, "scanner is not bound to a variable")
				continue
			}
			// loop condition nodes: w.Scan()
			var loopExits []*Node
			for _, n := range g.Nodes {
				for _, e := range n.Succs {
					at, ok := edgeAtom(info, e)
					if !ok || at.Kind != "call" || at.True {
						continue
					}
					cc := at.X.(*ast.CallExpr)
					if p.CalleeName(f, cc) == "bufio.Scanner.Scan" && recvIs(info, cc, w) {
						loopExits = append(loopExits, e.To)
					}
				}
			}
			if len(loopExits) == 0 {
				c.R.Undecided("R-DRAIN", f.Name, construct, "no `for scanner.Scan()` loop found")
				continue
			}
			isDrain := func(n *Node) bool {
				for _, cc := range callsIn(n.Ast) {
					switch p.CalleeName(f, cc) {
					case "io.Copy", "io.CopyBuffer":
						if len(cc.Args) >= 2 && isSrc(cc.Args[1]) {
							return true
						}
					case "io.ReadAll", "io/ioutil.ReadAll":
						if isSrc(cc.Args[0]) {
							return true
						}
					}
				}
				return false
			}
			isScanErr := func(x ast.Expr) bool {
				x = ast.Unparen(x)
				// `if err := scanner.Err(); err != nil`: follow the variable to its definition
				if v, isV := identObj(info, x).(*types.Var); isV && !v.IsField() {
					ast.Inspect(f.Body, func(y ast.Node) bool {
						if as, isAs := y.(*ast.AssignStmt); isAs && len(as.Lhs) == 1 && len(as.Rhs) == 1 && identObj(info, as.Lhs[0]) == v {
							x = ast.Unparen(as.Rhs[0])
						}
						return true
					})
				}
				cc, ok := x.(*ast.CallExpr)
				return ok && p.CalleeName(f, cc) == "bufio.Scanner.Err" && recvIs(info, cc, w)
			}
			cut := func(e *Edge) bool {
				at, ok := edgeAtom(info, e)
				if !ok {
					return false
				}
				if at.Kind == "call" {
					// errors.Is(scanner.Err(), X): not the too-long stop on the false
					// edge of X = bufio.ErrTooLong; a closed pipe (nothing left that
					// could be read) on the true edge of X = os.ErrClosed
					cc, isC := at.X.(*ast.CallExpr)
					if !isC || p.CalleeName(f, cc) != "errors.Is" || len(cc.Args) != 2 || !isScanErr(cc.Args[0]) {
						return false
					}
					switch objFullName(objOfExpr(info, cc.Args[1])) {
					case "bufio.ErrTooLong":
						return !at.True
					case "os.ErrClosed", "io/fs.ErrClosed", "io.ErrClosedPipe":
						return at.True
					}
					return false
				}
				if at.Kind != "nil" || !isScanErr(at.X) {
					return false
				}
				return at.Op == token.EQL // Err() == nil: the scanner stopped at EOF
			}
			bad := false
			for _, le := range loopExits {
				if isDrain(le) {
					continue
				}
				seen := g.Reach([]*Node{le}, isDrain, cut)
				if _, ok := seen[g.Exit]; ok {
					bad = true
					c.R.Violate("R-DRAIN", p.Pos(call), f.Name, construct,
						"bufio.Scanner stops with ErrTooLong at a line over 64 KiB; on that path the "+pipe+" pipe is not read any further (no io.Copy(io.Discard, reader) before the goroutine ends), so the plugin blocks on a full pipe",
						p.PathTo(seen, g.Exit))
					break
				}
			}
			if !bad {
				c.R.Hold("R-DRAIN", p.Pos(call), f.Name, construct, "after an early scanner stop the same reader is drained to EOF on every path", true)
			}
		case "bufio.NewReader", "bufio.NewReaderSize":
			if !isSrc(call.Args[0]) {
				continue
			}
			handled = true
			w := assignedVar(p, info, call)
			construct := pipe + " via bufio.Reader"
			if w == nil {
				c.R.Undecided("R-DRAIN", f.Name, construct, "reader is not bound to a variable")
				continue
			}
			nread := 0
			for _, n := range g.Nodes {
				as, ok := n.Ast.(*ast.AssignStmt)
				if !ok || len(as.Rhs) != 1 {
					continue
				}
				rc, ok := ast.Unparen(as.Rhs[0]).(*ast.CallExpr)
				if !ok || !recvIs(info, rc, w) {
					continue
				}
				m := p.CalleeName(f, rc)
				if !strings.HasPrefix(m, "bufio.Reader.Read") {
					continue
				}
				nread++
				var errv, linev *types.Var
				for i, l := range as.Lhs {
					if v, ok := identObj(info, l).(*types.Var); ok {
						if isErrorType(v.Type()) {
							errv = v
						} else if i == 0 {
							linev = v
						}
					}
				}
				if errv == nil {
					c.R.Violate("R-DRAIN", p.Pos(as), f.Name, construct+" read", "the read error is not bound, so EOF cannot be the only loop exit", nil)
					continue
				}
				errEdge := func(e *Edge) bool { // edges on which err is known non-nil
					at, ok := edgeAtom(info, e)
					if !ok {
						return false
					}
					// errors.Is(err, X) / errors.As(err, &t) holds: err is non-nil
					if at.Kind == "call" && at.True {
						if call, isC := at.X.(*ast.CallExpr); isC && len(call.Args) >= 1 {
							if nm := p.CalleeName(f, call); (nm == "errors.Is" || nm == "errors.As") && identObj(info, call.Args[0]) == errv {
								return true
							}
						}
					}
					if identObj(info, at.X) != errv {
						return false
					}
					if at.Kind == "nil" && at.Op == token.NEQ {
						return true
					}
					if at.Kind == "cmp" && at.Op == token.EQL && !isNilIdent(info, at.Y) {
						return true
					}
					return false
				}
				rn := n
				seen := g.ReachAfter(rn, func(m *Node) bool { return m == rn }, errEdge)
				if _, ok := seen[g.Exit]; ok {
					c.R.Violate("R-DRAIN", p.Pos(as), f.Name, construct+" loop exit",
						"the read loop can end on a path where the read error is nil: the "+pipe+" pipe is no longer drained and the plugin blocks on it", p.PathTo(seen, g.Exit))
				} else {
					c.R.Hold("R-DRAIN", p.Pos(as), f.Name, construct+" loop exit", "every exit of the read loop is on a non-nil read error (EOF or failure)", true)
				}
				// ... and a read error does end it (ReadLine/ReadString/ReadBytes return an
				// error only at EOF or on failure, after which every read fails again)
				if m == "bufio.Reader.ReadLine" || m == "bufio.Reader.ReadString" || m == "bufio.Reader.ReadBytes" {
					spins := false
					var from *Node
					// nodes reached from the read while the error variable still holds
					// the read's error (it may be reused for a later step)
					freshAt := map[*Node]bool{rn: true}
					work := []*Node{rn}
					for len(work) > 0 {
						x := work[len(work)-1]
						work = work[:len(work)-1]
						for _, e := range x.Succs {
							y := e.To
							if y == rn || freshAt[y] {
								continue
							}
							if y.Ast != nil {
								if defsY, _ := nodeDefsUses(info, y.Ast); defsY != nil {
									if _, re := defsY[errv]; re {
										continue
									}
								}
							}
							freshAt[y] = true
							work = append(work, y)
						}
					}
					for _, x := range g.Nodes {
						if !freshAt[x] {
							continue
						}
						for _, e := range x.Succs {
							if !errEdge(e) {
								continue
							}
							if _, back := g.Reach([]*Node{e.To}, nil, nil)[rn]; back {
								spins, from = true, e.To
							}
						}
					}
					if spins {
						c.R.Violate("R-DRAIN", p.Pos(as), f.Name, construct+" loop ends on read error",
							"after a failed read (an error other than the handled ones) the loop reads again: the reader goroutine spins on a dead pipe, never signals its wait groups, so the plugin is never reported as exited and Kill blocks ("+p.Pos(from.Ast)+")", nil)
					} else {
						c.R.Hold("R-DRAIN", p.Pos(as), f.Name, construct+" loop ends on read error", "no edge on which the read error is non-nil leads back to the read", true)
					}
				}
				if pipe == "stderr" && linev != nil {
					stderrF := p.FieldObj(modPath, "ClientConfig", "Stderr")
					isCopy := func(m *Node) bool {
						for _, cc := range callsIn(m.Ast) {
							se, ok := ast.Unparen(cc.Fun).(*ast.SelectorExpr)
							if !ok || se.Sel.Name != "Write" || len(cc.Args) != 1 {
								continue
							}
							if SelField(info, se.X) == stderrF && identObj(info, cc.Args[0]) == linev {
								return true
							}
						}
						return false
					}
					// a successful read must reach the verbatim copy before the next read
					seen2 := g.ReachAfter(rn, isCopy, errEdge)
					if _, again := seen2[rn]; again {
						c.R.Violate("R-DRAIN", p.Pos(as), f.Name, "stderr verbatim copy",
							"a successfully read stderr chunk can reach the next read without config.Stderr.Write(line): bytes of the plugin's stderr are dropped", p.PathTo(seen2, rn))
					} else {
						// and no statement between the read and the copy may modify the line
						c.R.Hold("R-DRAIN", p.Pos(as), f.Name, "stderr verbatim copy", "config.Stderr.Write(line) is passed on every path from a successful read to the next read", true)
					}
				}
			}
			if nread == 0 {
				c.R.Undecided("R-DRAIN", f.Name, construct, "no Read* call on the reader found")
			}
		case "io.Copy":
			if len(call.Args) >= 2 && isSrc(call.Args[1]) {
				handled = true
				c.R.Hold("R-DRAIN", p.Pos(call), f.Name, pipe+" via io.Copy", "io.Copy reads until EOF or error", false)
			}
		}
	}
	if !handled {
		c.R.Undecided("R-DRAIN", f.Name, pipe, "the pipe reader is not consumed by a recognised idiom (bufio.Scanner, bufio.Reader, io.Copy)")
	}
}

func recvIs(info *types.Info, call *ast.CallExpr, v *types.Var) bool {
	se, ok := ast.Unparen(call.Fun).(*ast.SelectorExpr)
	return ok && identObj(info, se.X) == v
}

// assignedVar returns the variable a call result is bound to (x := call).
func assignedVar(p *Prog, info *types.Info, call *ast.CallExpr) *types.Var {
	switch par := p.Parent(call).(type) {
	case *ast.AssignStmt:
		for i, r := range par.Rhs {
			if r == call && i < len(par.Lhs) {
				v, _ := identObj(info, par.Lhs[i]).(*types.Var)
				return v
			}
		}
	case *ast.ValueSpec:
		for i, r := range par.Values {
			if r == call && i < len(par.Names) {
				v, _ := info.Defs[par.Names[i]].(*types.Var)
				return v
			}
		}
	}
	return nil
}

// ---------- R-DRAIN/lines: every scanned stdout line is handed over, unmodified ----------

// ruleStdoutLines — the goroutine of Start that scans the plugin's stdout
// sends *every* scanned line, as returned by Scanner.Text(), to the line
// channel: from the true edge of Scan() every path back to Scan() passes the
// send. (The handshake parser works on the first line received; a producer
// that filters or rewrites lines makes it work on some other line.)
func ruleStdoutLines(c *Ctx) {
	p := c.P
	f := p.Fn("Client.Start")
	if f == nil {
		c.R.Undecided("R-DRAIN/lines", "Client.Start", "anchor", "function not found")
		return
	}
	ci := p.Calls()
	found := false
	for _, cs := range ci.sites[f] {
		if cs.Kind != "go" || len(cs.Callees) != 1 || cs.Callees[0].Lit == nil {
			continue
		}
		lf := cs.Callees[0]
		info := lf.Pkg.TypesInfo
		g := p.Graph(lf)
		var scanN *Node
		var scanner types.Object
		for _, call := range lf.Calls() {
			if p.CalleeName(lf, call) == "bufio.Scanner.Scan" {
				scanN = g.NodeOf(call)
				if se, ok := call.Fun.(*ast.SelectorExpr); ok {
					scanner = identObj(info, se.X)
				}
			}
		}
		if scanN == nil || scanner == nil {
			continue
		}
		found = true
		isSend := func(m *Node) bool {
			ss, ok := m.Ast.(*ast.SendStmt)
			if !ok {
				return false
			}
			ch, isCh := info.TypeOf(ss.Chan).Underlying().(*types.Chan)
			if !isCh || !types.Identical(ch.Elem(), types.Typ[types.String]) {
				return false
			}
			val, ok := ast.Unparen(p.Deref(lf, ss.Value)).(*ast.CallExpr)
			if !ok || p.CalleeName(lf, val) != "bufio.Scanner.Text" {
				return false
			}
			se, ok := val.Fun.(*ast.SelectorExpr)
			return ok && identObj(info, se.X) == scanner
		}
		ok := true
		var path []string
		// a line may be given up (not sent) only through the arm of a select
		// that receives from a channel closed by a defer of Start: Start has
		// returned then, and nobody parses lines any more
		ds := p.abandonChans(f)
		stop := func(m *Node) bool { return isSend(m) || isAbandonRecv(info, m, ds) != nil }
		for _, e := range scanN.Succs {
			at, isAt := edgeAtom(info, e)
			if !isAt || !(at.Kind == "call" && at.True) {
				continue
			}
			seen := g.Reach([]*Node{e.To}, stop, nil)
			if _, back := seen[scanN]; back {
				ok = false
				path = p.PathTo(seen, scanN)
			}
			if _, out := seen[g.Exit]; out {
				ok = false
				path = p.PathTo(seen, g.Exit)
			}
		}
		if ok {
			c.R.Hold("R-DRAIN/lines", p.Pos(scanN.Ast), lf.Name, "every scanned stdout line is sent on", "from Scan()==true every path back to Scan() sends Scanner.Text() on the line channel", true)
		} else {
			c.R.Violate("R-DRAIN/lines", p.Pos(scanN.Ast), lf.Name, "every scanned stdout line is sent on", "a scanned line can be skipped or rewritten before it is handed to Start: the handshake is then parsed from a line that is not the plugin's first line", path)
		}
	}
	if !found {
		c.R.Undecided("R-DRAIN/lines", f.Name, "anchor", "no goroutine scanning stdout with bufio.Scanner found in Start")
	}
}

// teeWriterNeverFails: w in io.TeeReader(pipe, w) is a value of a module type
// whose Write returns a nil error on every path (or the error of a
// bytes.Buffer write, which is always nil) and never less than len(p).
func (p *Prog) teeWriterNeverFails(c *Ctx, f *Func, w ast.Expr, pipe string) {
	info := f.Pkg.TypesInfo
	t := info.TypeOf(w)
	if t == nil {
		return
	}
	if pt, ok := t.Underlying().(*types.Pointer); ok {
		t = pt.Elem()
	}
	nt, ok := t.(*types.Named)
	if !ok || nt.Obj().Pkg() == nil || !strings.HasPrefix(nt.Obj().Pkg().Path(), modPath) {
		return
	}
	wf := p.Fn(nt.Obj().Name() + ".Write")
	construct := pipe + " tee writer " + nt.Obj().Name() + ".Write never fails"
	if wf == nil || wf.Decl == nil {
		c.R.Undecided("R-DRAIN", f.Name, construct, "Write method of the tee's writer not found")
		return
	}
	winfo := wf.Pkg.TypesInfo
	var pv types.Object
	if wf.Decl.Type.Params != nil && len(wf.Decl.Type.Params.List) == 1 && len(wf.Decl.Type.Params.List[0].Names) == 1 {
		pv = winfo.Defs[wf.Decl.Type.Params.List[0].Names[0]]
	}
	bad := ""
	walkNoLit(wf.Body, func(x ast.Node) bool {
		rs, ok := x.(*ast.ReturnStmt)
		if !ok {
			return true
		}
		switch len(rs.Results) {
		case 2:
			if !isNilIdent(winfo, rs.Results[1]) {
				bad = "returns a non-nil error at " + p.Pos(rs)
			}
			full := false
			if call, ok := ast.Unparen(rs.Results[0]).(*ast.CallExpr); ok && len(call.Args) == 1 {
				if id, ok := call.Fun.(*ast.Ident); ok && id.Name == "len" && identObj(winfo, call.Args[0]) == pv && pv != nil {
					full = true
				}
			}
			if !full {
				bad = "does not report len(p) bytes written at " + p.Pos(rs)
			}
		case 1:
			call, ok := ast.Unparen(rs.Results[0]).(*ast.CallExpr)
			if !ok || !strings.HasPrefix(p.CalleeName(wf, call), "bytes.Buffer.Write") || len(call.Args) != 1 || identObj(winfo, call.Args[0]) != pv {
				bad = "returns the result of another call at " + p.Pos(rs)
			}
		default:
			bad = "bare return at " + p.Pos(rs)
		}
		return true
	})
	if bad != "" {
		c.R.Violate("R-DRAIN", p.Pos(w), f.Name, construct,
			"the writer teed off the plugin's "+pipe+" "+bad+": io.TeeReader turns a short or failed write into a read error, the reader goroutine stops draining the pipe and the plugin blocks on it", nil)
	} else {
		c.R.Hold("R-DRAIN", p.Pos(w), f.Name, construct, "every return reports len(p), nil (or a bytes.Buffer write of p)", true)
	}
}

// poolValueOfType: ta asserts the result of P.Get() for a package-level
// sync.Pool P to type T, and everything that can be in P has static type T:
// the New function literal of P's initialiser returns expressions of type T,
// and every P.Put(x) in the module has an x of type T. P.New is never assigned.
func (p *Prog) poolValueOfType(f *Func, ta *ast.TypeAssertExpr) bool {
	info := f.Pkg.TypesInfo
	call, ok := ast.Unparen(ta.X).(*ast.CallExpr)
	if !ok || p.CalleeName(f, call) != "sync.Pool.Get" {
		return false
	}
	se, ok := ast.Unparen(call.Fun).(*ast.SelectorExpr)
	if !ok {
		return false
	}
	pool, ok := identObj(info, se.X).(*types.Var)
	if !ok || pool.IsField() || pool.Parent() != pool.Pkg().Scope() {
		return false
	}
	want := info.TypeOf(ta.Type)
	if want == nil {
		return false
	}
	okNew, good := false, true
	for _, pkg := range p.Pkgs {
		pinfo := pkg.TypesInfo
		for _, file := range pkg.Syntax {
			ast.Inspect(file, func(x ast.Node) bool {
				switch s := x.(type) {
				case *ast.ValueSpec:
					for i, nm := range s.Names {
						if pinfo.Defs[nm] != types.Object(pool) || i >= len(s.Values) {
							continue
						}
						cl, isLit := ast.Unparen(s.Values[i]).(*ast.CompositeLit)
						if !isLit {
							good = false
							continue
						}
						for _, el := range cl.Elts {
							kv, isKV := el.(*ast.KeyValueExpr)
							if !isKV {
								good = false
								continue
							}
							if k, isID := kv.Key.(*ast.Ident); !isID || k.Name != "New" {
								continue
							}
							fl, isFL := ast.Unparen(kv.Value).(*ast.FuncLit)
							if !isFL {
								good = false
								continue
							}
							okNew = true
							walkNoLit(fl.Body, func(y ast.Node) bool {
								if rs, isRet := y.(*ast.ReturnStmt); isRet {
									if len(rs.Results) != 1 || !types.Identical(pinfo.TypeOf(rs.Results[0]), want) {
										good = false
									}
								}
								return true
							})
						}
					}
				case *ast.AssignStmt:
					for _, l := range s.Lhs {
						if ls, isSel := ast.Unparen(l).(*ast.SelectorExpr); isSel && identObj(pinfo, ls.X) == types.Object(pool) {
							good = false // P.New = ...
						}
						if identObj(pinfo, l) == types.Object(pool) {
							good = false
						}
					}
				case *ast.CallExpr:
					if cs, isSel := ast.Unparen(s.Fun).(*ast.SelectorExpr); isSel && cs.Sel.Name == "Put" && identObj(pinfo, cs.X) == types.Object(pool) {
						if len(s.Args) != 1 || !types.Identical(pinfo.TypeOf(s.Args[0]), want) {
							good = false
						}
					}
				case *ast.UnaryExpr:
					if s.Op == token.AND && identObj(pinfo, s.X) == types.Object(pool) {
						// &P handed elsewhere: its contents are no longer known
						if _, isCallFun := p.Parent(s).(*ast.SelectorExpr); !isCallFun {
							good = false
						}
					}
				}
				return true
			})
		}
	}
	return okNew && good
}

// ---------- R-POOL/clean: a pooled scratch object goes back into its pool empty ----------

// rulePoolClean: an object taken from a sync.Pool and put back (directly or by
// a defer) carries whatever it still holds into the next user - for the log
// decoder, keys of one plugin's line into another line. From every statement
// that fills the object (a call that is handed the object or its address, an
// element store) every path to the function's exit therefore passes a reset of
// it: clear(x), a loop that ranges over x and deletes each key
// unconditionally, x.Reset(), or x = x[:0]. The error edge of the filling call
// itself is exempt for encoding/json.Unmarshal into a map of interface values
// (it validates the input before it stores anything).
func rulePoolClean(c *Ctx) {
	p := c.P
	n := 0
	for _, f := range p.Funcs {
		if !notTesting(p, f) || f.Lit != nil {
			continue
		}
		info := f.Pkg.TypesInfo
		var objs []*types.Var
		ast.Inspect(f.Body, func(x ast.Node) bool {
			as, ok := x.(*ast.AssignStmt)
			if !ok || len(as.Rhs) != 1 || len(as.Lhs) == 0 {
				return true
			}
			r := ast.Unparen(as.Rhs[0])
			if ta, isTA := r.(*ast.TypeAssertExpr); isTA {
				r = ast.Unparen(ta.X)
			}
			if call, isCall := r.(*ast.CallExpr); isCall && p.CalleeName(f, call) == "sync.Pool.Get" {
				if v, isVar := identObj(info, as.Lhs[0]).(*types.Var); isVar && !v.IsField() {
					objs = append(objs, v)
				}
			}
			return true
		})
		for _, v := range objs {
			putBack := false
			ast.Inspect(f.Body, func(x ast.Node) bool {
				if call, ok := x.(*ast.CallExpr); ok && p.CalleeName(f, call) == "sync.Pool.Put" && len(call.Args) == 1 {
					if a := ast.Unparen(call.Args[0]); identObj(info, a) == types.Object(v) {
						putBack = true
					} else if u, isU := a.(*ast.UnaryExpr); isU && identObj(info, u.X) == types.Object(v) {
						putBack = true
					}
				}
				return true
			})
			if !putBack {
				continue
			}
			n++
			g := p.Graph(f)
			mentions := func(e ast.Expr) bool {
				e = ast.Unparen(e)
				if u, ok := e.(*ast.UnaryExpr); ok && u.Op == token.AND {
					e = ast.Unparen(u.X)
				}
				return identObj(info, e) == types.Object(v)
			}
			isClean := func(m *Node) bool {
				if m.Ast == nil {
					return false
				}
				switch s := m.Ast.(type) {
				case *ast.ExprStmt:
					if call, ok := s.X.(*ast.CallExpr); ok {
						if id, isID := callFunIdent(call); isID && id.Name == "clear" && len(call.Args) == 1 && mentions(call.Args[0]) {
							return true
						}
						if se, isSel := ast.Unparen(call.Fun).(*ast.SelectorExpr); isSel && se.Sel.Name == "Reset" && mentions(se.X) {
							return true
						}
					}
				case *ast.AssignStmt:
					if len(s.Lhs) == 1 && len(s.Rhs) == 1 && identObj(info, s.Lhs[0]) == types.Object(v) {
						if sl, ok := ast.Unparen(s.Rhs[0]).(*ast.SliceExpr); ok && mentions(sl.X) && sl.Low == nil && sl.High != nil {
							if k, isK := constInt(info, sl.High); isK && k == 0 {
								return true
							}
						}
					}
				}
				return false
			}
			// loops that drain the map
			drainHeads := map[*Node]bool{}
			ast.Inspect(f.Body, func(x ast.Node) bool {
				rs, ok := x.(*ast.RangeStmt)
				if !ok || identObj(info, rs.X) != types.Object(v) || rs.Key == nil {
					return true
				}
				kv := identObj(info, rs.Key)
				deletes, leaves := false, false
				for _, st := range rs.Body.List {
					if es, isES := st.(*ast.ExprStmt); isES {
						if call, isCall := es.X.(*ast.CallExpr); isCall {
							if id, isID := callFunIdent(call); isID && id.Name == "delete" && len(call.Args) == 2 && mentions(call.Args[0]) && identObj(info, call.Args[1]) == kv && kv != nil {
								deletes = true
							}
						}
					}
				}
				walkNoLit(rs.Body, func(y ast.Node) bool {
					switch y.(type) {
					case *ast.ReturnStmt, *ast.BranchStmt:
						leaves = true
					}
					return true
				})
				if deletes && !leaves {
					if hn := g.NodeOf(rs.X); hn != nil {
						drainHeads[hn] = true
					}
				}
				return true
			})
			bad := false
			for _, m := range g.Nodes {
				if m.Ast == nil || isClean(m) {
					continue
				}
				fills := false
				var errV types.Object
				exemptErr := false
				for _, call := range callsIn(m.Ast) {
					if id, isID := callFunIdent(call); isID && (id.Name == "delete" || id.Name == "len" || id.Name == "clear") {
						continue
					}
					nm := p.CalleeName(f, call)
					if nm == "sync.Pool.Put" || nm == "sync.Pool.Get" {
						continue
					}
					for _, a := range call.Args {
						if mentions(a) {
							fills = true
							if nm == "encoding/json.Unmarshal" {
								if mt, isMap := v.Type().Underlying().(*types.Map); isMap {
									if it, isI := mt.Elem().Underlying().(*types.Interface); isI && it.Empty() {
										exemptErr = true
									}
								}
							}
						}
					}
				}
				if as, ok := m.Ast.(*ast.AssignStmt); ok {
					for _, l := range as.Lhs {
						if ix, isIx := ast.Unparen(l).(*ast.IndexExpr); isIx && mentions(ix.X) {
							fills = true
						}
					}
					if ev := assignedErrVar(info, m.Ast); ev != nil {
						errV = ev
					}
				}
				if _, isDefer := m.Ast.(*ast.DeferStmt); isDefer || !fills {
					continue
				}
				cut := func(e *Edge) bool {
					if !exemptErr || errV == nil {
						return false
					}
					at, ok := edgeAtom(info, e)
					return ok && at.Kind == "nil" && at.Op == token.NEQ && identObj(info, at.X) == errV
				}
				var starts []*Node
				for _, e := range m.Succs {
					starts = append(starts, e.To)
				}
				seen := g.Reach(starts, func(x *Node) bool { return isClean(x) || drainHeads[x] }, cut)
				if _, out := seen[g.Exit]; out {
					bad = true
					c.R.Violate("R-POOL/clean", p.Pos(m.Ast), f.Name, "pooled "+v.Name()+" is reset before it goes back",
						"an object taken from a sync.Pool is filled here and the function can then return (putting it back) without resetting it: what it still holds is carried into the next user of the pool - for the log decoder, fields of one plugin's line show up in another line", p.PathTo(seen, g.Exit))
				}
			}
			if !bad {
				c.R.Hold("R-POOL/clean", p.Pos(f.Node()), f.Name, "pooled "+v.Name()+" is reset before it goes back", "from every statement that fills the object every path to the exit passes clear/Reset/[:0] or a loop that deletes every key", true)
			}
		}
	}
	if n == 0 {
		c.R.Hold("R-POOL/clean", "", "", "pooled scratch objects", "no function of the module takes an object from a sync.Pool and puts it back", false)
	}
}
