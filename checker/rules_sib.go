package main

import (
	"fmt"
	"go/ast"
	"go/token"
	"go/types"
	"strings"
)

// errNonNilEdge: an edge on which some error value is known non-nil.
func errNonNilEdge(info *types.Info, e *Edge) bool {
	at, ok := edgeAtom(info, e)
	return ok && at.Kind == "nil" && at.Op == token.NEQ && isErrorType(info.TypeOf(at.X))
}

// ---------- R-SIB/close: both ClientProtocol.Close implementations ----------

func ruleSibClose(c *Ctx) {
	p := c.P
	n := 0
	for _, f := range p.Funcs {
		if f.Decl == nil || f.Obj == nil || f.Obj.Name() != "Close" || !p.implementsClientProtocol(f) {
			continue
		}
		n++
		info := f.Pkg.TypesInfo
		g := p.Graph(f)
		isShutdown := func(m *Node) bool {
			for _, call := range callsIn(m.Ast) {
				full := p.CalleeName(f, call)
				if full == "net/rpc.Client.Call" && len(call.Args) > 0 {
					if s, ok := constString(info, call.Args[0]); ok && s == "Control.Quit" {
						return true
					}
				}
				if strings.HasSuffix(full, "/internal/plugin.GRPCControllerClient.Shutdown") {
					return true
				}
			}
			return false
		}
		isConnClose := func(m *Node) bool {
			for _, call := range callsIn(m.Ast) {
				switch p.CalleeName(f, call) {
				case "net/rpc.Client.Close", "google.golang.org/grpc.ClientConn.Close":
					return true
				}
			}
			return false
		}
		isBrokerClose := func(m *Node) bool {
			for _, call := range callsIn(m.Ast) {
				switch p.CalleeName(f, call) {
				case modPath + ".MuxBroker.Close", modPath + ".GRPCBroker.Close":
					return true
				}
			}
			return false
		}
		// "an earlier close step failed": a local error variable is non-nil. An
		// error-valued call such as ctx.Err() is a state test, not a failed step.
		cutErr := func(e *Edge) bool {
			if !errNonNilEdge(info, e) {
				return false
			}
			at, _ := edgeAtom(info, e)
			v, isV := identObj(info, at.X).(*types.Var)
			return isV && !v.IsField()
		}
		for _, st := range []struct {
			what string
			pred func(*Node) bool
			cut  func(*Edge) bool
			why  string
		}{
			{"sends the shutdown request", isShutdown, nil, "the plugin is never asked to exit gracefully, so Kill always force-kills (or, for net/rpc, the plugin never leaves Serve)"},
			{"closes the connection", isConnClose, cutErr, "the protocol connection is left open"},
			{"closes the broker", isBrokerClose, cutErr, "the broker (its session/stream and goroutines) is left open"},
		} {
			seen := g.Reach([]*Node{g.Entry}, st.pred, st.cut)
			if _, miss := seen[g.Exit]; miss {
				c.R.Violate("R-SIB/close", p.Pos(f.Node()), f.Name, st.what, "there is a path through Close (on which no earlier step failed) that does not do this: "+st.why, p.PathTo(seen, g.Exit))
			} else {
				c.R.Hold("R-SIB/close", p.Pos(f.Node()), f.Name, st.what, "on every path on which no earlier close step failed", true)
			}
		}
		// order: shutdown request before the connection is closed
		okOrder := true
		for _, m := range g.Nodes {
			if m.Ast != nil && isConnClose(m) && !g.DominatedBy(m, isShutdown) {
				okOrder = false
			}
		}
		if okOrder {
			c.R.Hold("R-SIB/close", p.Pos(f.Node()), f.Name, "request before connection close", "the shutdown request dominates the connection close", true)
		} else {
			c.R.Violate("R-SIB/close", p.Pos(f.Node()), f.Name, "request before connection close", "the connection can be closed before the shutdown request was sent", nil)
		}
		// net/rpc: the quit error is what the final return yields
		for _, m := range g.Nodes {
			as, ok := m.Ast.(*ast.AssignStmt)
			if !ok || !isShutdown(m) || len(as.Lhs) != 1 {
				continue
			}
			v, _ := identObj(info, as.Lhs[0]).(*types.Var)
			if v == nil || !isErrorType(v.Type()) {
				continue
			}
			// the last return (reachable with all closes succeeding) returns v
			seen := g.Reach([]*Node{g.Entry}, func(x *Node) bool {
				rs, ok := x.Ast.(*ast.ReturnStmt)
				return ok && len(rs.Results) == 1 && identObj(info, rs.Results[0]) == v
			}, cutErr)
			if _, miss := seen[g.Exit]; miss {
				c.R.Violate("R-SIB/close", p.Pos(as), f.Name, "quit error returned", "when every close step succeeds Close does not return the error of the Control.Quit call, so Kill treats a failed quit as graceful", nil)
			} else {
				c.R.Hold("R-SIB/close", p.Pos(as), f.Name, "quit error returned", "the error of the quit call is the result when all close steps succeed", true)
			}
		}
	}
	if n < 2 {
		c.R.Undecided("R-SIB/close", "", "instance-floor", fmt.Sprintf("only %d ClientProtocol.Close implementations found", n))
	}
	ruleRPCNames(c)
	// server side: Control.Quit ends Serve, but only after its reply is out
	p.ruleQuitReply(c)
	// gRPC controller Shutdown stops the server
	if sh := p.Fn("grpcControllerServer.Shutdown"); sh != nil {
		stops := false
		for _, call := range sh.Calls() {
			if nm := p.CalleeName(sh, call); nm == modPath+".GRPCServer.Stop" || nm == modPath+".GRPCServer.GracefulStop" {
				stops = true
			}
		}
		if stops {
			c.R.Hold("R-SIB/close", p.Pos(sh.Node()), sh.Name, "Shutdown stops the gRPC server", "", true)
		} else {
			c.R.Violate("R-SIB/close", p.Pos(sh.Node()), sh.Name, "Shutdown stops the gRPC server", "the controller's Shutdown handler no longer stops the server", nil)
		}
	} else {
		c.R.Undecided("R-SIB/close", "grpcControllerServer.Shutdown", "anchor", "function not found")
	}
}

// ruleRPCNames: every constant "Svc.Method" passed to rpc.Client.Call is
// registered under that service name with a receiver that has the method.
func ruleRPCNames(c *Ctx) {
	p := c.P
	registered := map[string]types.Type{}
	for _, f := range p.Funcs {
		info := f.Pkg.TypesInfo
		for _, call := range f.Calls() {
			if p.CalleeName(f, call) == "net/rpc.Server.RegisterName" && len(call.Args) == 2 {
				if s, ok := constString(info, call.Args[0]); ok {
					registered[s] = info.TypeOf(call.Args[1])
				}
			}
		}
	}
	n := 0
	for _, f := range p.Funcs {
		info := f.Pkg.TypesInfo
		for _, call := range f.Calls() {
			if p.CalleeName(f, call) != "net/rpc.Client.Call" || len(call.Args) < 1 {
				continue
			}
			s, ok := constString(info, call.Args[0])
			if !ok {
				continue
			}
			n++
			parts := strings.SplitN(s, ".", 2)
			construct := "rpc name " + s
			t := registered[parts[0]]
			if t == nil || len(parts) != 2 {
				c.R.Violate("R-RPCNAME", p.Pos(call), f.Name, construct, "no RegisterName(\""+parts[0]+"\", ...) in the module", nil)
				continue
			}
			ms := types.NewMethodSet(t)
			found := false
			for i := 0; i < ms.Len(); i++ {
				m := ms.At(i).Obj()
				if m.Name() == parts[1] && m.Exported() {
					sig := m.Type().(*types.Signature)
					if sig.Params().Len() == 2 && sig.Results().Len() == 1 && isErrorType(sig.Results().At(0).Type()) {
						found = true
					}
				}
			}
			if found {
				c.R.Hold("R-RPCNAME", p.Pos(call), f.Name, construct, "registered receiver has an exported method of net/rpc shape", false)
			} else {
				c.R.Violate("R-RPCNAME", p.Pos(call), f.Name, construct, "the registered receiver has no exported method "+parts[1]+" of net/rpc shape: the call fails at run time", nil)
			}
		}
	}
	if n < 3 {
		c.R.Undecided("R-RPCNAME", "", "instance-floor", fmt.Sprintf("only %d constant rpc names found", n))
	}
}

// ---------- R-SIB/dispense ----------

func ruleSibDispense(c *Ctx) {
	p := c.P
	n := 0
	for _, name := range []string{"RPCClient.Dispense", "GRPCClient.Dispense", "dispenseServer.Dispense"} {
		f := p.Fn(name)
		if f == nil {
			c.R.Undecided("R-SIB/dispense", name, "anchor", "function not found")
			continue
		}
		info := f.Pkg.TypesInfo
		g := p.Graph(f)
		// comma-ok map lookup keyed by the name parameter
		var okVar *types.Var
		var lookup *Node
		for _, m := range g.Nodes {
			as, isAs := m.Ast.(*ast.AssignStmt)
			if !isAs || len(as.Lhs) != 2 || len(as.Rhs) != 1 {
				continue
			}
			ix, isIx := ast.Unparen(as.Rhs[0]).(*ast.IndexExpr)
			if !isIx {
				continue
			}
			if _, isMap := info.TypeOf(ix.X).Underlying().(*types.Map); !isMap {
				continue
			}
			kv, _ := identObj(info, ix.Index).(*types.Var)
			if kv == nil || !isParamOf(info, f, kv) {
				continue
			}
			okVar, _ = identObj(info, as.Lhs[1]).(*types.Var)
			lookup = m
			break
		}
		n++
		if lookup == nil || okVar == nil {
			c.R.Violate("R-SIB/dispense", p.Pos(f.Node()), f.Name, "unknown name is an error", "no comma-ok lookup of the requested plugin name in the plugin map", nil)
			continue
		}
		// on the !ok edge every path returns a non-nil error
		bad := false
		for _, m := range g.Nodes {
			for _, e := range m.Succs {
				at, isAt := edgeAtom(info, e)
				if !isAt || at.Kind != "bool" || at.True || identObj(info, at.X) != okVar {
					continue
				}
				// follow until a return
				seen := g.Reach([]*Node{e.To}, func(x *Node) bool {
					rs, isR := x.Ast.(*ast.ReturnStmt)
					if !isR || len(rs.Results) == 0 {
						return false
					}
					return p.isNonNilExpr(f, rs.Results[len(rs.Results)-1])
				}, nil)
				if _, miss := seen[g.Exit]; miss {
					bad = true
				}
				if !g.DominatedBy(e.From, func(x *Node) bool { return x == lookup }) {
					bad = true
				}
			}
		}
		// the miss edge must exist
		hasMiss := false
		for _, m := range g.Nodes {
			for _, e := range m.Succs {
				if at, isAt := edgeAtom(info, e); isAt && at.Kind == "bool" && !at.True && identObj(info, at.X) == okVar {
					hasMiss = true
				}
			}
		}
		if bad || !hasMiss {
			c.R.Violate("R-SIB/dispense", p.Pos(lookup.Ast), f.Name, "unknown name is an error", "a plugin name that is not in the map does not lead to a non-nil error return", nil)
		} else {
			c.R.Hold("R-SIB/dispense", p.Pos(lookup.Ast), f.Name, "unknown name is an error", "the miss edge of the comma-ok lookup returns a fresh non-nil error", true)
		}
	}
	_ = n
}

// ---------- R-SIB/switch: protocol switches and defaults ----------

func ruleSibSwitch(c *Ctx) {
	p := c.P
	protoT := p.Pkgs[modPath].Types.Scope().Lookup("Protocol")
	if protoT == nil {
		c.R.Undecided("R-SIB/switch", "", "Protocol", "type not found")
		return
	}
	for _, name := range []string{"Client.Client", "Serve"} {
		f := p.Fn(name)
		if f == nil {
			c.R.Undecided("R-SIB/switch", name, "anchor", "function not found")
			continue
		}
		info := f.Pkg.TypesInfo
		found := false
		ast.Inspect(f.Body, func(x ast.Node) bool {
			sw, ok := x.(*ast.SwitchStmt)
			if !ok || sw.Tag == nil || !types.Identical(info.TypeOf(sw.Tag), protoT.Type()) {
				return true
			}
			found = true
			cases := map[string]bool{}
			defaultFails := false
			for _, cl := range sw.Body.List {
				cc := cl.(*ast.CaseClause)
				if cc.List == nil {
					// default: must return an error or panic
					for _, st := range cc.Body {
						switch s := st.(type) {
						case *ast.ReturnStmt:
							if len(s.Results) > 0 && p.isNonNilExpr(f, s.Results[len(s.Results)-1]) {
								defaultFails = true
							}
						case *ast.ExprStmt:
							if call, ok := s.X.(*ast.CallExpr); ok && p.CalleeName(f, call) == "builtin.panic" {
								defaultFails = true
							}
						}
					}
					if !defaultFails && len(cc.Body) > 0 {
						// the failure is recorded in an error variable and returned further
						// down (an inlined helper): no feasible path from the default arm
						// reaches a return whose error result can be nil
						defaultFails = p.armOnlyFails(f, cc.Body[0])
					}
					continue
				}
				for _, e := range cc.List {
					if s, ok := constString(info, e); ok {
						cases[s] = true
					}
				}
			}
			if cases["netrpc"] && cases["grpc"] && defaultFails {
				c.R.Hold("R-SIB/switch", p.Pos(sw), f.Name, "protocol switch", "covers ProtocolNetRPC and ProtocolGRPC; default returns an error or panics", true)
			} else {
				c.R.Violate("R-SIB/switch", p.Pos(sw), f.Name, "protocol switch", fmt.Sprintf("the switch over the protocol does not cover both protocols with a failing default (netrpc=%v grpc=%v defaultFails=%v)", cases["netrpc"], cases["grpc"], defaultFails), nil)
			}
			return true
		})
		if !found {
			// the same dispatch written as an if / else-if chain
			ast.Inspect(f.Body, func(x ast.Node) bool {
				ifs, ok := x.(*ast.IfStmt)
				if !ok || found {
					return true
				}
				cases := map[string]bool{}
				defaultFails := false
				cur := ifs
				for cur != nil {
					be, ok := ast.Unparen(cur.Cond).(*ast.BinaryExpr)
					if !ok || be.Op != token.EQL || !types.Identical(info.TypeOf(be.X), protoT.Type()) {
						return true
					}
					if sv, ok := constString(info, be.Y); ok {
						cases[sv] = true
					}
					switch el := cur.Else.(type) {
					case *ast.IfStmt:
						cur = el
					case *ast.BlockStmt:
						for _, st := range el.List {
							switch s2 := st.(type) {
							case *ast.ReturnStmt:
								if len(s2.Results) > 0 && p.isNonNilExpr(f, s2.Results[len(s2.Results)-1]) {
									defaultFails = true
								}
							case *ast.ExprStmt:
								if call, ok := s2.X.(*ast.CallExpr); ok && p.CalleeName(f, call) == "builtin.panic" {
									defaultFails = true
								}
							}
						}
						cur = nil
					default:
						cur = nil
					}
				}
				if len(cases) >= 2 {
					found = true
					if cases["netrpc"] && cases["grpc"] && defaultFails {
						c.R.Hold("R-SIB/switch", p.Pos(ifs), f.Name, "protocol switch", "if/else-if chain covers ProtocolNetRPC and ProtocolGRPC; the final else returns an error or panics", true)
					} else {
						c.R.Violate("R-SIB/switch", p.Pos(ifs), f.Name, "protocol switch", fmt.Sprintf("the dispatch over the protocol does not cover both protocols with a failing default (netrpc=%v grpc=%v defaultFails=%v)", cases["netrpc"], cases["grpc"], defaultFails), nil)
					}
				}
				return true
			})
		}
		if !found && name == "Serve" {
			// CFG form: comparisons of a Protocol value with both constants exist,
			// and with their equal-edges removed the server is never started
			g := p.Graph(f)
			protoEq := func(e *Edge) string {
				var x, y ast.Expr
				if e.Tag != nil && e.Cond != nil && e.Branch > 0 {
					x, y = e.Tag, e.Cond
				} else if at, ok := edgeAtom(info, e); ok && at.Kind == "cmp" && at.Op == token.EQL {
					x, y = at.X, at.Y
				} else {
					return ""
				}
				if t := info.TypeOf(x); t == nil || !types.Identical(t, protoT.Type()) {
					return ""
				}
				if sv, ok := constString(info, y); ok {
					return sv
				}
				return ""
			}
			seenConst := map[string]bool{}
			var first *Node
			for _, m := range g.Nodes {
				for _, e := range m.Succs {
					if k := protoEq(e); k != "" {
						seenConst[k] = true
						if first == nil {
							first = m
						}
					}
				}
			}
			var serveN *Node
			for _, m := range g.Nodes {
				if _, isGo := m.Ast.(*ast.GoStmt); isGo {
					for _, call := range callsIn(m.Ast) {
						if p.CalleeName(f, call) == modPath+".ServerProtocol.Serve" {
							serveN = m
						}
					}
				}
			}
			if first != nil && serveN != nil {
				found = true
				fr := p.FeasibleReach(f, []*Node{g.Entry}, nil, func(e *Edge) bool { return protoEq(e) != "" })
				if seenConst["netrpc"] && seenConst["grpc"] && !fr[serveN] {
					c.R.Hold("R-SIB/switch", p.Pos(first.Ast), f.Name, "protocol switch", "the protocol value is compared with both ProtocolNetRPC and ProtocolGRPC and no server is started when it equals neither", true)
				} else {
					c.R.Violate("R-SIB/switch", p.Pos(first.Ast), f.Name, "protocol switch", fmt.Sprintf("the dispatch over the protocol does not cover both protocols with a failing default (netrpc=%v grpc=%v serves anyway=%v)", seenConst["netrpc"], seenConst["grpc"], fr[serveN]), nil)
				}
			}
		}
		if !found {
			c.R.Undecided("R-SIB/switch", f.Name, "protocol switch", "no switch over a Protocol value found")
		}
	}
	// NewClient defaults AllowedProtocols to exactly {ProtocolNetRPC}
	nc := p.Fn("NewClient")
	if nc == nil {
		c.R.Undecided("R-SIB/switch", "NewClient", "anchor", "function not found")
		return
	}
	info := nc.Pkg.TypesInfo
	apF := p.FieldObj(modPath, "ClientConfig", "AllowedProtocols")
	ok := false
	g := p.Graph(nc)
	for _, m := range g.Nodes {
		as, isAs := m.Ast.(*ast.AssignStmt)
		if !isAs || len(as.Lhs) != 1 || SelField(info, as.Lhs[0]) != apF {
			continue
		}
		cl, isCl := ast.Unparen(as.Rhs[0]).(*ast.CompositeLit)
		if !isCl || len(cl.Elts) != 1 {
			continue
		}
		if s, isS := constString(info, cl.Elts[0]); isS && s == "netrpc" {
			if g.OnlyViaEdge(m, func(e *Edge) bool {
				at, isAt := edgeAtom(info, e)
				return isAt && at.Kind == "nil" && at.Op == token.EQL && SelField(info, at.X) == apF
			}) {
				ok = true
			}
		}
	}
	if ok {
		c.R.Hold("R-SIB/switch", p.Pos(nc.Node()), nc.Name, "default AllowedProtocols", "nil list defaults to exactly {netrpc}", true)
	} else {
		c.R.Violate("R-SIB/switch", p.Pos(nc.Node()), nc.Name, "default AllowedProtocols", "a nil AllowedProtocols is not defaulted to exactly {ProtocolNetRPC}: a client that did not opt in could speak gRPC", nil)
	}
}

// ---------- R-EXPIRY: every parked dial-side slot gets an expiry; Run exits on error ----------

func ruleExpiry(c *Ctx) {
	p := c.P
	ci := p.Calls()
	for _, spec := range []struct{ fn, getter, recv string }{
		{"MuxBroker.Run", "MuxBroker.getStream", "github.com/hashicorp/yamux.Session.AcceptStream"},
		{"GRPCBroker.Run", "GRPCBroker.getClientStream", modPath + ".streamer.Recv"},
	} {
		f := p.Fn(spec.fn)
		if f == nil {
			c.R.Undecided("R-EXPIRY", spec.fn, "anchor", "function not found")
			continue
		}
		info := f.Pkg.TypesInfo
		g := p.Graph(f)
		var getNodes []*Node
		var recvNode *Node
		var errv *types.Var
		for _, cs := range ci.sites[f] {
			if len(cs.Callees) == 1 && cs.Callees[0].Name == spec.getter {
				getNodes = append(getNodes, cs.Node)
			}
			if cs.Full == spec.recv {
				recvNode = cs.Node
				if as, ok := cs.Node.Ast.(*ast.AssignStmt); ok {
					for _, l := range as.Lhs {
						if v, ok := identObj(info, l).(*types.Var); ok && isErrorType(v.Type()) {
							errv = v
						}
					}
				}
			}
		}
		if len(getNodes) == 0 || recvNode == nil || errv == nil {
			c.R.Undecided("R-EXPIRY", f.Name, "anchors", fmt.Sprintf("slot getter (%d) / receive call not found", len(getNodes)))
			continue
		}
		// expiry goroutine: go statement whose callee has a timer-bounded select and deletes from a map
		isExpiryGo := func(m *Node) bool {
			gs, ok := m.Ast.(*ast.GoStmt)
			if !ok {
				return false
			}
			for _, cs := range ci.sites[f] {
				if cs.Call == gs.Call {
					for _, ce := range cs.Callees {
						hasTimer, hasDelete := false, false
						for _, op := range p.BlockOps(ce) {
							if op.Class == "B" {
								hasTimer = true
							}
						}
						for _, call := range ce.Calls() {
							if p.CalleeName(ce, call) == "builtin.delete" {
								hasDelete = true
							}
						}
						if hasTimer && hasDelete {
							return true
						}
					}
				}
			}
			return false
		}
		for _, gn := range getNodes {
			seen := g.ReachAfter(gn, isExpiryGo, nil)
			_, again := seen[recvNode]
			_, out := seen[g.Exit]
			if again || out {
				c.R.Violate("R-EXPIRY", p.Pos(gn.Ast), f.Name, "expiry started for the parked slot", "a pending slot can be created for an inbound connection without an expiry goroutine: it (and the parked connection) stays in the map forever", nil)
			} else {
				c.R.Hold("R-EXPIRY", p.Pos(gn.Ast), f.Name, "expiry started for the parked slot", "every path from the slot lookup to the next receive starts the timer-bounded expiry goroutine", true)
			}
		}
		// the loop ends when the receive fails
		ok := false
		for _, m := range g.Nodes {
			for _, e := range m.Succs {
				at, isAt := edgeAtom(info, e)
				if !isAt || at.Kind != "nil" || at.Op != token.NEQ || identObj(info, at.X) != errv {
					continue
				}
				seen := g.Reach([]*Node{e.To}, func(x *Node) bool { return x == recvNode }, nil)
				if _, ex := seen[g.Exit]; ex {
					if _, back := g.Reach([]*Node{e.To}, nil, nil)[recvNode]; !back {
						ok = true
					}
				}
			}
		}
		// ... and only then: no other edge leaves the dispatch loop
		seenOnly := g.ReachAfter(recvNode, func(x *Node) bool { return x == recvNode }, func(e *Edge) bool {
			at, isAt := edgeAtom(info, e)
			return isAt && at.Kind == "nil" && at.Op == token.NEQ && identObj(info, at.X) == errv && firstCondAfter(g, recvNode, e.From)
		})
		// the same question with the error variable tracked along the path: an
		// `err != nil` edge is the receive's error edge only while err still
		// holds the receive's error (it may be reused for a later step)
		leavesFresh := false
		{
			type st struct {
				n     *Node
				fresh bool
			}
			seenSt := map[st]bool{}
			var work []st
			for _, e := range recvNode.Succs {
				work = append(work, st{e.To, true})
			}
			for len(work) > 0 {
				cur := work[len(work)-1]
				work = work[:len(work)-1]
				if seenSt[cur] || cur.n == recvNode {
					continue
				}
				seenSt[cur] = true
				if cur.n == g.Exit {
					leavesFresh = true
					break
				}
				fresh := cur.fresh
				if cur.n.Ast != nil {
					defsN, _ := nodeDefsUses(info, cur.n.Ast)
					if _, re := defsN[errv]; re {
						fresh = false
					}
				}
				for _, e := range cur.n.Succs {
					at, isAt := edgeAtom(info, e)
					if fresh && isAt && at.Kind == "nil" && at.Op == token.NEQ && identObj(info, at.X) == errv {
						continue // the receive failed: leaving is right
					}
					if !fresh && isAt && at.Kind == "nil" && at.Op == token.EQL && identObj(info, at.X) == errv {
						// err now belongs to a later step; its nil edge is an ordinary edge
					}
					work = append(work, st{e.To, fresh})
				}
			}
		}
		if _, leaves := seenOnly[g.Exit]; leaves || leavesFresh {
			c.R.Violate("R-EXPIRY", p.Pos(recvNode.Ast), f.Name, "Run ends only on receive error",
				"the dispatch loop can end although the session/stream is healthy (e.g. when one inbound connection fails its negotiation): every later dial from the peer then waits for an ack forever", p.PathTo(seenOnly, g.Exit))
		} else {
			c.R.Hold("R-EXPIRY", p.Pos(recvNode.Ast), f.Name, "Run ends only on receive error", "every path from the receive to the function's exit takes the error edge of that receive", true)
		}
		if ok {
			c.R.Hold("R-EXPIRY", p.Pos(recvNode.Ast), f.Name, "Run ends on receive error", "the error edge of the receive leaves the loop and returns", true)
		} else {
			c.R.Violate("R-EXPIRY", p.Pos(recvNode.Ast), f.Name, "Run ends on receive error", "after the session/stream failed Run keeps looping (or never returns): its goroutine outlives the client", nil)
		}
	}
}

// ---------- atomic ids (shared by C06/C07) ----------

func ruleAtomicIDs(c *Ctx) { atomicIDs(c) }

// atomicIDs: the broker id counters are touched only by sync/atomic adds, and
// every value a NextId-style function returns is the result of its own add
// (not a later re-read of the counter, which another caller may have advanced).
func atomicIDs(c *Ctx) {
	p := c.P
	if c.doneAtomicIDs {
		return
	}
	c.doneAtomicIDs = true
	nIds := 0
	isCounter := func(v *types.Var) bool {
		return v.IsField() && strings.HasSuffix(p.FieldName(v), ".nextId")
	}
	for _, f := range p.Funcs {
		info := f.Pkg.TypesInfo
		acc := p.fieldAccesses(f, isCounter)
		var adds []*ast.CallExpr
		var underLock []fieldAccess
		for _, a := range acc {
			nIds++
			ok := false
			if u, isU := p.Parent(a.sel).(*ast.UnaryExpr); isU && u.Op == token.AND {
				if call, isC := p.Parent(u).(*ast.CallExpr); isC && strings.HasPrefix(p.CalleeName(f, call), "sync/atomic.Add") {
					ok = true
					adds = append(adds, call)
				}
			}
			// typed atomics: x.nextId.Add(1) on a sync/atomic.Uint32/Uint64/Int32/Int64 field
			if se, isS := p.Parent(a.sel).(*ast.SelectorExpr); isS && se.X == ast.Expr(a.sel) && se.Sel.Name == "Add" {
				if call, isC := p.Parent(se).(*ast.CallExpr); isC && call.Fun == ast.Expr(se) && strings.HasPrefix(p.CalleeName(f, call), "sync/atomic.") {
					ok = true
					adds = append(adds, call)
				}
			}
			fn := p.FieldName(a.fv)
			if !ok && a.node != nil {
				// the counter kept under a mutex of its owner instead: the access is
				// inside a region in which some mutex is certainly held
				if held := p.MustHeldAt(f, a.node); len(held) > 0 {
					if _, isPlain := a.fv.Type().Underlying().(*types.Basic); isPlain {
						underLock = append(underLock, a)
						c.R.Hold("R-GUARD/atomic", p.Pos(a.sel), f.Name, fn+" via sync/atomic", "accessed with {"+held.names(p)+"} held (a counter under a mutex instead of an atomic)", true)
						continue
					}
				}
			}
			if ok {
				c.R.Hold("R-GUARD/atomic", p.Pos(a.sel), f.Name, fn+" via sync/atomic", "atomic add, no other access", true)
			} else {
				c.R.Violate("R-GUARD/atomic", p.Pos(a.sel), f.Name, fn+" via sync/atomic", "the id counter is accessed other than by an atomic add: concurrent NextId calls can return the same id", nil)
			}
		}
		if len(acc) == 0 || f.Decl == nil {
			continue
		}
		// functions that hand out ids (one uint32 result): each returned value is an add result
		sig, _ := f.Obj.Type().(*types.Signature)
		if sig == nil || sig.Results().Len() != 1 || !isUint32(sig.Results().At(0).Type()) {
			continue
		}
		okRet, nRet, viaVar := true, 0, false
		walkNoLit(f.Body, func(x ast.Node) bool {
			rs, isR := x.(*ast.ReturnStmt)
			if !isR || len(rs.Results) != 1 {
				return true
			}
			nRet++
			e := ast.Unparen(p.Deref(f, rs.Results[0]))
			isAdd := false
			for _, a := range adds {
				if ast.Expr(a) == e {
					isAdd = true
				}
			}
			if !isAdd && addResultVar(info, f.Body, e, adds) {
				// a local that only ever holds the result of one of this
				// function's own adds (an add repeated to skip a reserved value)
				isAdd, viaVar = true, true
			}
			if !isAdd {
				okRet = false
			}
			return true
		})
		_ = info
		if !(okRet && nRet > 0 && len(adds) == 1) && len(adds) == 0 && len(underLock) == len(acc) && len(acc) >= 2 {
			// mutex form: one increment of the counter, and every return yields the
			// counter itself, read while the lock taken before the increment is still held
			g := p.Graph(f)
			var incN *Node
			nInc := 0
			for _, a := range underLock {
				if a.write {
					nInc++
					incN = a.node
				}
			}
			okMu := nInc == 1 && incN != nil
			nRet2 := 0
			walkNoLit(f.Body, func(x ast.Node) bool {
				rs, isR := x.(*ast.ReturnStmt)
				if !isR || len(rs.Results) != 1 {
					return true
				}
				nRet2++
				fv := SelField(info, ast.Unparen(rs.Results[0]))
				rn := g.NodeOf(rs)
				if fv == nil || !isCounter(fv) || rn == nil || incN == nil || !g.Dominates(incN, rn) {
					okMu = false
					return true
				}
				heldInc := p.MustHeldAt(f, incN)
				for x := range g.ReachAfter(incN, func(y *Node) bool { return y == rn }, nil) {
					if x.Ast == nil || !reachable(g, x, rn) {
						continue
					}
					common := false
					for lk := range p.MustHeldAt(f, x) {
						if heldInc[lk] {
							common = true
						}
					}
					if !common {
						okMu = false
					}
				}
				common := false
				for lk := range p.MustHeldAt(f, rn) {
					if heldInc[lk] {
						common = true
					}
				}
				if !common {
					okMu = false
				}
				return true
			})
			if okMu && nRet2 > 0 {
				c.R.Hold("R-GUARD/atomic", p.Pos(f.Node()), f.Name, "returns its own increment", "the counter is incremented once and read back for the result within one critical section", true)
				continue
			}
		}
		if okRet && nRet > 0 && len(adds) == 1 {
			c.R.Hold("R-GUARD/atomic", p.Pos(f.Node()), f.Name, "returns its own increment", "every return yields the result of the single atomic add", true)
		} else if okRet && nRet > 0 && viaVar && len(adds) > 1 {
			c.R.Hold("R-GUARD/atomic", p.Pos(f.Node()), f.Name, "returns its own increment", fmt.Sprintf("every return yields a local that holds nothing but the result of one of this call's %d atomic adds", len(adds)), true)
		} else {
			c.R.Violate("R-GUARD/atomic", p.Pos(f.Node()), f.Name, "returns its own increment", "the id handed out is not (only) the result of this call's single atomic add: two concurrent callers can obtain the same id", nil)
		}
	}
	if nIds < 2 {
		c.R.Undecided("R-GUARD/atomic", "", "instance-floor", "id counters not found")
	}
}

// addResultVar: e names a local variable whose every definition in body
// assigns it the result of one of the given add calls, and which is modified
// in no other way.
func addResultVar(info *types.Info, body ast.Node, e ast.Expr, adds []*ast.CallExpr) bool {
	id, ok := ast.Unparen(e).(*ast.Ident)
	if !ok {
		return false
	}
	v, ok := info.Uses[id].(*types.Var)
	if !ok || v.IsField() || v.Parent() == nil || v.Parent() == v.Pkg().Scope() {
		return false
	}
	isV := func(x ast.Expr) bool {
		i, ok := ast.Unparen(x).(*ast.Ident)
		return ok && (info.Uses[i] == v || info.Defs[i] == v)
	}
	defs, good := 0, true
	ast.Inspect(body, func(x ast.Node) bool {
		switch s := x.(type) {
		case *ast.AssignStmt:
			for i, l := range s.Lhs {
				if !isV(l) {
					continue
				}
				defs++
				if (s.Tok != token.ASSIGN && s.Tok != token.DEFINE) || len(s.Lhs) != len(s.Rhs) {
					good = false
					continue
				}
				r := ast.Unparen(s.Rhs[i])
				isAdd := false
				for _, a := range adds {
					if ast.Expr(a) == r {
						isAdd = true
					}
				}
				if !isAdd {
					good = false
				}
			}
		case *ast.IncDecStmt:
			if isV(s.X) {
				good = false
			}
		case *ast.UnaryExpr:
			if s.Op == token.AND && isV(s.X) {
				good = false
			}
		case *ast.ValueSpec:
			for _, nm := range s.Names {
				if info.Defs[nm] == v {
					good = false // declared with var: its zero value is a definition too
				}
			}
		}
		return true
	})
	return good && defs > 0
}

// ruleQuitReply — net/rpc shutdown handshake on the plugin side.
//
// Closing RPCServer.DoneCh makes Serve return, which ends the plugin process.
// (a) The Control.Quit handler must not do that synchronously: its reply is
// written by net/rpc only after the handler returned, the process exit races
// with it, and a client that loses the reply (io.ErrUnexpectedEOF) treats the
// shutdown as failed and force-kills the plugin in the middle of its cleanup.
// (b) Quit must still end Serve: the handler records the request in a field,
// and the function serving the control connection closes DoneCh when that
// field is set, after net/rpc's ServeConn on the control stream has returned
// (the client hangs up the control stream once it has the reply).
func (p *Prog) ruleQuitReply(c *Ctx) {
	quit := p.Fn("controlServer.Quit")
	if quit == nil {
		c.R.Undecided("R-SIB/close", "controlServer.Quit", "anchor", "function not found")
		return
	}
	closesDone := func(f *Func) bool {
		for _, call := range f.Calls() {
			if p.CalleeName(f, call) == "builtin.close" && len(call.Args) == 1 {
				if fv := SelField(f.Pkg.TypesInfo, call.Args[0]); fv != nil && p.FieldName(fv) == "RPCServer.DoneCh" {
					return true
				}
			}
		}
		return false
	}
	reachesClose := func(f *Func) bool {
		for rf := range p.ReachableFuncs([]*Func{f}, false) {
			if closesDone(rf) {
				return true
			}
		}
		return false
	}
	if reachesClose(quit) {
		c.R.Violate("R-SIB/close", p.Pos(quit.Node()), quit.Name, "Quit replies before the server ends",
			"the net/rpc quit handler closes RPCServer.DoneCh itself: Serve returns and the plugin process exits while net/rpc has not yet written the reply to this very call; the client then sees io.ErrUnexpectedEOF, treats the shutdown as failed and force-kills the plugin during its cleanup (socket files are left behind)", nil)
		c.R.Hold("R-SIB/close", p.Pos(quit.Node()), quit.Name, "Quit ends Serve", "the handler reaches the close of RPCServer.DoneCh", true)
		return
	}
	c.R.Hold("R-SIB/close", p.Pos(quit.Node()), quit.Name, "Quit replies before the server ends", "the handler does not reach the close of RPCServer.DoneCh synchronously", true)
	// fields the handler sets
	qinfo := quit.Pkg.TypesInfo
	flags := map[*types.Var]bool{}
	ast.Inspect(quit.Body, func(x ast.Node) bool {
		switch st := x.(type) {
		case *ast.AssignStmt:
			for _, l := range st.Lhs {
				if fv := SelField(qinfo, l); fv != nil {
					flags[fv] = true
				}
			}
		case *ast.CallExpr:
			if strings.HasPrefix(p.CalleeName(quit, st), "sync/atomic.Store") && len(st.Args) == 2 {
				if u, ok := ast.Unparen(st.Args[0]).(*ast.UnaryExpr); ok && u.Op == token.AND {
					if fv := SelField(qinfo, u.X); fv != nil {
						flags[fv] = true
					}
				}
			}
			// typed atomics: c.flag.Store(true) / CompareAndSwap / Swap
			if nm := p.CalleeName(quit, st); strings.HasPrefix(nm, "sync/atomic.") {
				if se, ok := ast.Unparen(st.Fun).(*ast.SelectorExpr); ok && (se.Sel.Name == "Store" || se.Sel.Name == "Swap" || se.Sel.Name == "CompareAndSwap") {
					if fv := SelField(qinfo, se.X); fv != nil {
						flags[fv] = true
					}
				}
			}
		}
		return true
	})
	// the function serving the control connection
	ok := false
	why := "no function calls net/rpc.Server.ServeConn and afterwards ends the server when the field set by Quit is set"
	for _, f := range p.Funcs {
		if f.Decl == nil {
			continue
		}
		info := f.Pkg.TypesInfo
		g := p.Graph(f)
		var serveN *Node
		for _, call := range f.Calls() {
			if p.CalleeName(f, call) == "net/rpc.Server.ServeConn" {
				serveN = g.NodeOf(call)
			}
		}
		if serveN == nil {
			continue
		}
		after := g.ReachAfter(serveN, nil, nil)
		// every ending call in this function comes after the serve call
		early := false
		var endNodes []*Node
		for _, call := range f.Calls() {
			ce := p.FnOf(asFunc(p.Callee(f, call)))
			if ce == nil || !reachesClose(ce) {
				continue
			}
			n := g.NodeOf(call)
			if n == nil {
				continue
			}
			endNodes = append(endNodes, n)
			if !g.Dominates(serveN, n) {
				early = true
			}
		}
		if early {
			why = "the server can be ended before the control connection was served"
			continue
		}
		readsFlag := func(e ast.Expr) bool {
			found := false
			ast.Inspect(e, func(x ast.Node) bool {
				if ex, isE := x.(ast.Expr); isE {
					if fv := SelField(info, ex); fv != nil && flags[fv] {
						found = true
					}
				}
				return true
			})
			return found
		}
		for _, en := range endNodes {
			if _, r := after[en]; !r {
				continue
			}
			// reached only through an edge whose condition reads the flag
			if g.OnlyViaEdge(en, func(e *Edge) bool {
				if e.Cond == nil {
					return false
				}
				if _, r := after[e.From]; !r {
					return false
				}
				if !readsFlag(e.Cond) {
					return false
				}
				// the edge must be one on which the flag is known to be SET: a
				// comparison that also holds for the unset (zero) value ends the
				// server when any client hangs up
				at, isAt := edgeAtom(info, e)
				if !isAt {
					return false
				}
				switch at.Kind {
				case "cmp":
					k, isK := constInt(info, at.Y)
					if !isK {
						return false
					}
					// holds(0)?  the edge asserts  X op k
					holds0 := map[token.Token]bool{token.EQL: 0 == k, token.NEQ: 0 != k, token.LSS: 0 < k, token.LEQ: 0 <= k, token.GTR: 0 > k, token.GEQ: 0 >= k}[at.Op]
					return !holds0
				case "call", "bool":
					return at.True
				}
				return false
			}) {
				ok = true
			} else {
				why = "the server is ended after the control connection closes whether or not Quit was requested (a client that merely reconnects would end the plugin)"
			}
		}
	}
	if ok {
		c.R.Hold("R-SIB/close", p.Pos(quit.Node()), quit.Name, "Quit ends Serve", "the handler records the request; the control-connection server closes RPCServer.DoneCh after net/rpc's ServeConn returned, iff the request was recorded", true)
	} else {
		c.R.Violate("R-SIB/close", p.Pos(quit.Node()), quit.Name, "Quit ends Serve", "the net/rpc quit request no longer ends Serve: "+why, nil)
	}
}

// armOnlyFails: starting at statement st, every feasible path ends in a return
// whose last result is a certainly non-nil error (or in a panic).
func (p *Prog) armOnlyFails(f *Func, st ast.Stmt) bool {
	g := p.Graph(f)
	info := f.Pkg.TypesInfo
	for {
		switch b := st.(type) {
		case *ast.BlockStmt:
			if len(b.List) > 0 {
				st = b.List[0]
				continue
			}
		case *ast.LabeledStmt:
			st = b.Stmt
			continue
		}
		break
	}
	start := g.NodeOf(st)
	if start == nil {
		return false
	}
	states := p.FeasibleStates(f, []*Node{start}, NewStore(), nil, nil, nil, nil)
	sawReturn := false
	for n, sts := range states {
		if n == g.Exit {
			// reaching the exit other than through a return statement (fall off the end)
			continue
		}
		rs, ok := n.Ast.(*ast.ReturnStmt)
		if !ok {
			continue
		}
		sawReturn = true
		var last ast.Expr
		if len(rs.Results) > 0 {
			last = rs.Results[len(rs.Results)-1]
		} else if f.Type.Results != nil {
			// bare return: the named error result
			for _, fd := range f.Type.Results.List {
				for _, nm := range fd.Names {
					if isErrorType(info.TypeOf(nm)) {
						last = nm
					}
				}
			}
		}
		if last == nil || !isErrorType(info.TypeOf(last)) {
			return false
		}
		if p.isNonNilExpr(f, last) {
			continue
		}
		v, isV := identObj(info, ast.Unparen(last)).(*types.Var)
		if !isV {
			return false
		}
		for _, s0 := range sts {
			if s0.Get("P:"+varKey(v)) != "NN" {
				return false
			}
		}
	}
	return sawReturn
}
