package main

// Rules that are registered but not implemented yet. A property that still
// uses one of these is not entered in MANIFEST.json.

var pendingRules = map[string]bool{}

func pending(c *Ctx, name string) {
	pendingRules[name] = true
	c.R.Notes = append(c.R.Notes, "rule "+name+" is not implemented yet")
}

func runSelftest(verif string) int { return 0 }

func runMutants(repo, verif string, pd *propDef, verbose bool) int { return 0 }

func mutantSweep(repo string, pd *propDef) *MutantResult { return nil }

func ruleHandshakeTable(c *Ctx) { pending(c, "ruleHandshakeTable") }

func ruleVersionNegotiation(c *Ctx) { pending(c, "ruleVersionNegotiation") }

func ruleEnvVersionsOnly(c *Ctx) { pending(c, "ruleEnvVersionsOnly") }

func ruleIDMux(c *Ctx) { pending(c, "ruleIDMux") }

func ruleSlot(c *Ctx) { pending(c, "ruleSlot") }

func ruleIDGRPC(c *Ctx) { pending(c, "ruleIDGRPC") }

func ruleTLSUse(c *Ctx) { pending(c, "ruleTLSUse") }

func ruleMuxSer(c *Ctx) { pending(c, "ruleMuxSer") }

func ruleIDKnock(c *Ctx) { pending(c, "ruleIDKnock") }

func ruleLogLevels(c *Ctx) { pending(c, "ruleLogLevels") }

func ruleStdioWiring(c *Ctx) { pending(c, "ruleStdioWiring") }

func ruleFresh(c *Ctx) { pending(c, "ruleFresh") }

func ruleCopyChan(c *Ctx) { pending(c, "ruleCopyChan") }

func ruleTLSConfig(c *Ctx) { pending(c, "ruleTLSConfig") }

func ruleTLSPools(c *Ctx) { pending(c, "ruleTLSPools") }

func ruleEnvCertOnly(c *Ctx) { pending(c, "ruleEnvCertOnly") }

func ruleReattach(c *Ctx) { pending(c, "ruleReattach") }

func ruleSentinelReattach(c *Ctx) { pending(c, "ruleSentinelReattach") }

func ruleCookie(c *Ctx) { pending(c, "ruleCookie") }

func ruleOrderServe(c *Ctx) { pending(c, "ruleOrderServe") }

func ruleStdout(c *Ctx) { pending(c, "ruleStdout") }

